from numpy import pi, sqrt, e as E
from numpy import dot


def vector_field(t,y,dy,b,e,r,source_idx,weight,target_idx):


	out = y[0:8]
	abc = y[8:16]
	r[target_idx] = dot(weight, out[source_idx])
	
	dy[0:8] = -b*out - e - pi
	dy[8:16] = -abc*b - 2.5*e + r + 3.75

	return dy