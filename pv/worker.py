"""Worker process: runs one shard of one arm (collect / shrink / replay / enumerate) and writes a JSON report.

usage: python -m pv.worker <spec.json>
"""
import importlib
import json
import os
import shutil
import sys
import tempfile
import time
import traceback
from collections import Counter

from .arm import Ctx
from .common import HarnessError, canon, case_hash, jsonable


class Stats:
    def __init__(self, arm, keep_samples=4):
        self.arm = arm
        self.evaluations = 0
        self.nontrivial = set()
        self.labels = Counter()
        self.rejected = Counter()
        self.excluded = Counter()
        self.by_bucket = {}
        self.samples = []
        self.keep_samples = keep_samples
        self.skipped_budget = 0
        self.info = Counter()

    def add(self, case, res):
        if res.excluded:
            self.excluded[res.excluded] += 1
            return
        self.evaluations += 1
        if res.rejected:
            self.rejected[res.rejected] += 1
        for lb in res.labels:
            self.labels[lb] += 1
        for k, v in (res.info or {}).items():
            if isinstance(v, (int, float)) and not isinstance(v, bool):
                self.info[k] += v
        if res.nontrivial and not res.rejected:
            h = case_hash(case)
            if h not in self.nontrivial:
                self.nontrivial.add(h)
                if len(self.samples) < self.keep_samples:
                    try:
                        self.samples.append(jsonable(self.arm.sample(case)))
                    except Exception as e:  # pragma: no cover
                        self.samples.append({"sample_error": repr(e)})
        for v in res.violations:
            lst = self.by_bucket.setdefault(v["bucket"], [])
            lst.append((len(canon(case)), v["msg"], case))
            lst.sort(key=lambda x: x[0])
            del lst[3:]

    def report(self):
        viol = []
        for b, lst in self.by_bucket.items():
            for size, msg, case in lst:
                viol.append({"bucket": b, "msg": msg, "case": jsonable(case), "size": size})
        return {
            "evaluations": self.evaluations,
            "nontrivial": sorted(self.nontrivial),
            "labels": dict(self.labels),
            "rejected": dict(self.rejected),
            "excluded": dict(self.excluded),
            "violations": viol,
            "samples": self.samples,
            "skipped_budget": self.skipped_budget,
            "info": dict(self.info),
        }


class _Found(Exception):
    pass


class _CaseTimeout(BaseException):
    pass


def guarded_run(arm, case, ctx):
    """Run one case under a wall-clock guard.  A case that exceeds it is 'inconclusive' (rejected), never a
    violation: the guard only protects the campaign from a single runaway integration."""
    import signal
    from .common import CaseResult
    limit = getattr(arm, "case_timeout", 90)

    def handler(signum, frame):
        raise _CaseTimeout()
    old = signal.signal(signal.SIGALRM, handler)
    signal.setitimer(signal.ITIMER_REAL, limit)
    try:
        return arm.run(case, ctx)
    except _CaseTimeout:
        res = CaseResult()
        res.rejected = "case-timeout(inconclusive)"
        return res
    finally:
        signal.setitimer(signal.ITIMER_REAL, 0)
        signal.signal(signal.SIGALRM, old)


def _settings(n, phases, steps=None):
    from hypothesis import HealthCheck, settings
    kw = dict(max_examples=n, database=None, deadline=None, derandomize=False, report_multiple_bugs=False,
              suppress_health_check=list(HealthCheck), phases=phases, print_blob=False)
    if steps is not None:
        kw["stateful_step_count"] = steps
    return settings(**kw)


def run_hypothesis(arm, ctx, spec, stats):
    import hypothesis
    from hypothesis import Phase, given
    n = int(spec["n"])
    seedv = int(spec["seed"])
    mode = spec["mode"]
    target = spec.get("target_bucket")
    deadline = spec.get("deadline_s")
    t_start = time.time()
    fails = []

    def over_budget():
        return deadline is not None and (time.time() - t_start) > deadline

    phases = (Phase.generate,) if mode == "collect" else (Phase.generate, Phase.shrink)

    if arm.kind == "strategy":
        @hypothesis.seed(seedv)
        @_settings(n, phases)
        @given(arm.strategy(ctx))
        def test(case):
            if over_budget() and mode == "collect":
                stats.skipped_budget += 1
                return
            res = guarded_run(arm, case, ctx)
            stats.add(case, res)
            if target is not None and any(v["bucket"] == target for v in res.violations):
                fails.append(case)
                raise _Found()

        try:
            test()
        except _Found:
            pass
    else:
        from hypothesis.stateful import run_state_machine_as_test

        def sink(case, res):
            stats.add(case, res)
            if target is not None and any(v["bucket"] == target for v in res.violations):
                fails.append(case)
                raise _Found()

        def budget_hook():
            if over_budget() and mode == "collect":
                stats.skipped_budget += 1
                return True
            return False

        machine = arm.machine(ctx, sink, budget_hook)
        steps = arm.steps.get(ctx.tier, 30)
        try:
            run_state_machine_as_test(hypothesis.seed(seedv)(machine), settings=_settings(n, phases, steps))
        except _Found:
            pass
    return fails[-1] if fails else None


def run_atheris(arm, ctx, spec, stats, finalize):
    """Coverage-guided variant of the collect mode: libFuzzer (atheris) mutates the byte string that Hypothesis turns
    into a case (`fuzz_one_input`), the arm's oracle runs inside the target, every case is recorded like in collect mode
    and failures do not stop the campaign.  libFuzzer never returns, so the report is written from inside the target after
    the requested number of executions."""
    try:
        import atheris
    except Exception as e:  # not installed: this engine is optional, the Hypothesis arms decide the property
        stats.info["fuzz_skipped_no_atheris"] += 1
        return finalize()
    from hypothesis import given
    n = int(spec["n"])
    with atheris.instrument_imports(include=list(getattr(arm, "fuzz_modules", ())), enable_loader_override=False):
        for m in getattr(arm, "fuzz_modules", ()):
            importlib.import_module(m)
    count = [0]

    @_settings(1, ())
    @given(arm.strategy(ctx))
    def test(case):
        res = guarded_run(arm, case, ctx)
        stats.add(case, res)

    fuzz_one = test.hypothesis.fuzz_one_input

    def done():
        return stats.evaluations + sum(stats.excluded.values())

    def target(data):
        count[0] += 1
        try:
            fuzz_one(data)
        except (KeyboardInterrupt, SystemExit):
            raise
        except HarnessError:
            raise
        finally:
            # (byte strings that Hypothesis cannot turn into a case do not count; the campaign is bounded by cases)
            if done() >= n or count[0] >= 200 * n:
                stats.info["fuzz_executions"] += count[0]
                stats.info["fuzz_cases"] += done()
                finalize()
    corpus = os.path.join(os.getcwd(), "corpus")
    os.makedirs(corpus, exist_ok=True)
    atheris.Setup([sys.argv[0], f"-seed={int(spec['seed']) % 2147483647 or 1}", "-max_len=8192", "-len_control=0", "-rss_limit_mb=4096",
                   f"-runs={200 * n + 10}", "-verbosity=0", "-print_final_stats=0", corpus], target)
    atheris.Fuzz()
    stats.info["fuzz_executions"] += count[0]
    stats.info["fuzz_cases"] += done()
    finalize()


def main(argv=None):
    argv = argv or sys.argv[1:]
    with open(argv[0]) as fh:
        spec = json.load(fh)
    out = spec["out"]
    report = {"harness_error": None}
    cwd0 = os.getcwd()
    scratch = tempfile.mkdtemp(prefix="pv_")
    try:
        os.chdir(scratch)
        sys.path.insert(0, scratch)
        mod = importlib.import_module("pv.props." + spec["prop"].lower())
        arm = {a.name: a for a in mod.ARMS}[spec["arm"]]
        ctx = Ctx.from_json(spec["ctx"])
        stats = Stats(arm)
        t0 = time.time()
        mode = spec["mode"]
        if mode in ("collect", "shrink"):
            shrunk = run_hypothesis(arm, ctx, spec, stats)
            report["shrunk_case"] = jsonable(shrunk) if shrunk is not None else None
        elif mode == "reduce":
            from .reduce import reduce_case
            case, ok = reduce_case(arm, spec["case"], spec["target_bucket"], ctx)
            report["shrunk_case"] = jsonable(case) if ok else None
        elif mode == "enumerate":
            k, nsh = int(spec["shard"]), int(spec["nshards"])
            for i, case in enumerate(arm.enumerate(ctx)):
                if i % nsh != k:
                    continue
                stats.add(case, guarded_run(arm, case, ctx))
        elif mode == "fuzz":
            def finalize():
                report.update(stats.report())
                report["wall_s"] = time.time() - t0
                os.chdir(cwd0)
                shutil.rmtree(scratch, ignore_errors=True)
                with open(out + ".tmp", "w") as fh:
                    json.dump(report, fh)
                os.replace(out + ".tmp", out)
                sys.stdout.flush()
                os._exit(0)
            run_atheris(arm, ctx, spec, stats, finalize)
        elif mode == "replay":
            results = []
            for case in spec["cases"]:
                res = guarded_run(arm, case, ctx)
                stats.add(case, res)
                results.append(res.to_json())
            report["replay_results"] = results
        else:
            raise HarnessError(f"unknown mode {mode}")
        report.update(stats.report())
        report["wall_s"] = time.time() - t0
    except BaseException as e:  # harness failure of any kind
        tb = "".join(traceback.format_exception(type(e), e, e.__traceback__))
        tb = "\n".join(l if len(l) < 400 else l[:400] + " ...[cut]" for l in tb.splitlines())
        if os.environ.get("PV_WORKER_TB"):
            with open(os.environ["PV_WORKER_TB"], "a") as fh:
                fh.write("".join(traceback.format_exception(type(e), e, e.__traceback__)) + "\n=====\n")
        # (the middle of a long traceback is the printed falsifying example; the exception itself is at the end)
        last = f"{type(e).__name__}: {str(e)[:1200]}"
        report["harness_error"] = (tb if len(tb) < 8000 else tb[:2000] + "\n...\n" + tb[-3000:]) + "\nEXCEPTION: " + last
    finally:
        os.chdir(cwd0)
        shutil.rmtree(scratch, ignore_errors=True)
    tmp = out + ".tmp"
    with open(tmp, "w") as fh:
        json.dump(report, fh)
    os.replace(tmp, out)
    return 0


if __name__ == "__main__":
    try:
        sys.exit(main())
    finally:
        sys.stdout.flush()
        # torch / jax threads sometimes keep the interpreter alive
        os._exit(0)
