"""Hypothesis strategies for model specs (see pv/model.py for the spec format)."""
import keyword

from hypothesis import strategies as st

from . import expr as E

_RAW_POOL = ("r rr r_in r_in0 m_in m_in2 x x_v1 x_v2 xs weight weight_in0 u u_in1 a ab abc tau tau1 k_d1 v_d1_1 "
             "in_edge_0 inp out v w z q g c0 b s_in0 x_in0 r_v1 k kk h m d e f p eta alpha delta J V_e r_e r_i "
             "tau_e I_ext").split()
_RESERVED = {'y', 'dy', 'source_idx', 'target_idx', 'pi', 'I', 'E', 'S', 'Q', 'O', 'N', 'oo', 'zoo', 'nan', 'beta',
             'gamma', 'Beta', 'Gamma', 'exp', 'log', 'sin', 'cos', 'tan', 'cot', 'sec', 'csc', 'sinh', 'cosh', 'tanh',
             'sqrt', 'abs', 't', 'time'}
_RESERVED_PARTS = ['_buffer', '_delays', '_maxdelay', '_idx', '_hist']


def _legal(n):
    if keyword.iskeyword(n) or n in _RESERVED or any(p in n for p in _RESERVED_PARTS):
        return False
    try:
        import sympy
        if n in dir(sympy):
            return False
        if not isinstance(sympy.sympify(n), sympy.Symbol):
            return False
    except Exception:
        return False
    return True


NAME_POOL = [n for n in _RAW_POOL if _legal(n)]
#: names that resemble names PyRates generates itself (x_v1, weight, r_in0, in_edge_0 ...)
COLLISION_NAMES = [n for n in NAME_POOL if n in ("x_v1", "x_v2", "r_v1", "weight", "weight_in0", "r_in0", "u_in1",
                                                  "s_in0", "x_in0", "k_d1", "v_d1_1", "in_edge_0", "m_in2",
                                                  "k")]
PLAIN_NAMES = [n for n in NAME_POOL if n not in COLLISION_NAMES]


def fingerprint(i, base=0.11, step=0.0371):
    """Distinct, benign values: used for initial values and constants so that positions can be read off."""
    v = base + step * i
    return round(((v + 1.0) % 2.0) - 1.0 if v > 1.9 else v, 6)


@st.composite
def operator_def(draw, cfg, prev_outputs=(), idx=0, leak=False, funcs=None, collision=False, prev_inputs=()):
    """One operator definition.  prev_outputs: output variable names of earlier operators of the node (wiring)."""
    pool = NAME_POOL if collision else PLAIN_NAMES
    if cfg.get("extra_names"):
        # names that the caller wants to see often (e.g. names of temporaries that sympy hands out): half of the pool
        extra = [n for n in cfg["extra_names"] if _legal(n)]
        pool = list(pool) + extra * max(1, len(pool) // max(1, len(extra)))
    n_state = draw(st.integers(1, cfg.get("max_state", 2)))
    n_alg = draw(st.integers(0, cfg.get("max_alg", 2)))
    n_in = draw(st.integers(0, cfg.get("max_in", 3)))
    n_const = draw(st.integers(0 if not leak else 1, cfg.get("max_const", 3)))
    names = []

    def fresh():
        for _ in range(50):
            n = draw(st.sampled_from(pool))
            # never re-use the input name of an earlier operator: it would wire this operator back into an
            # earlier one and close a cycle in the node's operator graph (malformed, see C20)
            if n not in names and n not in prev_inputs:
                names.append(n)
                return n
        n = f"q{len(names)}"
        names.append(n)
        return n

    inputs = []
    for _ in range(n_in):
        cand = [o for o in prev_outputs if o not in names]
        if cand and draw(st.integers(0, 9)) < 6:
            n = draw(st.sampled_from(cand))
            names.append(n)
        else:
            n = fresh()
        inputs.append(n)
    states = [fresh() for _ in range(n_state)]
    algs = [fresh() for _ in range(n_alg)]
    consts = [fresh() for _ in range(n_const)]
    # output: a state or alg variable (or none); sometimes re-use the output name of an earlier op
    out = None
    oc = draw(st.integers(0, 9))
    if oc < 8:
        out = draw(st.sampled_from(states + algs))
    elif prev_outputs and oc == 8:
        cand = [o for o in prev_outputs if o not in names and o not in prev_inputs]
        if cand:
            # rename one of my states to an earlier output name -> several ops drive the same input
            newn = draw(st.sampled_from(cand))
            states[0] = newn
            names.append(newn)
            out = newn
    max_depth = cfg.get("expr_depth", 3)
    eqs = []
    alg_dep_in = {}
    avail_alg = []
    used = set()
    for z in algs:
        vs = states + consts + inputs + avail_alg
        ast, _ = draw(E.expr_strategy(vs, max_depth=max_depth, funcs=funcs, allow_pow=cfg.get("pow", True)))
        vs_used = E.variables(ast)
        used |= vs_used
        if not (vs_used - set(consts)) and cfg.get("no_const_rhs", True) and (states or inputs or avail_alg):
            # an algebraic variable that depends on parameters only has no vector-valued operand under vectorisation
            # (the shape of the listed finding F-04b): nine times in ten it gets a state / input / algebraic operand
            if not vs_used or draw(st.integers(0, 9)) > 0:
                v0 = draw(st.sampled_from(states + inputs + avail_alg))
                ast = ["bin", "+", ast, ["var", v0]]
                vs_used = set(vs_used) | {v0}
                used |= {v0}
        elif not vs_used and cfg.get("no_const_rhs", True):
            v0 = draw(st.sampled_from(states + consts if (states + consts) else vs))
            ast = ["bin", "+", ast, ["var", v0]]
            vs_used = {v0}
            used |= {v0}
        alg_dep_in[z] = any(v in inputs for v in vs_used) or any(alg_dep_in.get(v) for v in vs_used)
        eqs.append([z, False, ast, 0])
        avail_alg.append(z)
    for k, x in enumerate(states):
        vs = states + consts + inputs + algs
        ast, _ = draw(E.expr_strategy(vs, max_depth=max_depth, funcs=funcs, allow_pow=cfg.get("pow", True)))
        if leak:
            a = consts[k % len(consts)]
            ast = ["bin", "+", ["bin", "*", ["neg", ["var", a]], ["var", x]], ast]
        if not E.variables(ast) and cfg.get("no_const_rhs", True):
            ast = ["bin", "+", ast, ["var", draw(st.sampled_from(vs))]]
        used |= E.variables(ast)
        eqs.append([x, True, ast, draw(st.integers(0, 2))])
    # every declared variable must be used: add linear terms to state equations
    unused = [v for v in inputs + consts + algs + states if v not in used]
    si = [i for i, e in enumerate(eqs) if e[1]]
    for j, v in enumerate(unused):
        i = si[j % len(si)]
        c = draw(st.sampled_from([1.0, 2.0, 0.5, -1.0, 10.0, -3.0]))
        term = ["var", v] if c == 1.0 else ["bin", "*", ["num", abs(c)], ["var", v]]
        eqs[i][2] = ["bin", "-" if c < 0 else "+", eqs[i][2], term]
    # equation order: drawn permutation (PyRates orders by dependency, so order must not matter)
    eqs = draw(st.permutations(eqs))
    vars_ = []
    ctr = idx * 17
    for n in states:
        vars_.append([n, "state", fingerprint(ctr)]); ctr += 1
    for n in algs:
        vars_.append([n, "alg", 0.0])
    for n in inputs:
        vars_.append([n, "input", fingerprint(ctr, 0.2, 0.0613)]); ctr += 1
    for n in consts:
        v = fingerprint(ctr, 0.5, 0.0817) if not leak else round(0.5 + 0.1 * (ctr % 15), 3)
        vars_.append([n, "const", v]); ctr += 1
    vars_ = draw(st.permutations(vars_))
    return {"vars": [list(v) for v in vars_], "eqs": [list(e) for e in eqs], "out": out,
            "_alg_dep_in": alg_dep_in}


def edge_sources(spec_ops, op, safe_only=True):
    od = spec_ops[op]
    dep = od.get("_alg_dep_in", {})
    out = []
    for n, kind, _ in od["vars"]:
        if kind == "state":
            out.append(n)
        elif kind == "alg" and (not safe_only or not dep.get(n, True)):
            out.append(n)
    return out


@st.composite
def model_spec(draw, cfg=None):
    """A well-formed circuit: node types, nodes (optionally nested), weighted edges."""
    cfg = dict(cfg or {})
    funcs = cfg.get("funcs")
    leak = cfg.get("leak", False)
    collision = cfg.get("collision", None)
    if collision is None:
        collision = draw(st.integers(0, 4)) == 0
    n_types = draw(st.integers(cfg.get("min_types", 1), cfg.get("max_types", 3)))
    ops, ntypes = {}, {}
    oc = 0
    for ti in range(n_types):
        n_ops = draw(st.integers(1, cfg.get("max_ops", 3)))
        outs, names, ins = [], [], []
        for _ in range(n_ops):
            od = draw(operator_def(cfg, tuple(outs), idx=oc, leak=leak, funcs=funcs, collision=collision,
                                   prev_inputs=tuple(ins)))
            ins.extend(v[0] for v in od["vars"] if v[1] == "input")
            # operator names that are prefixes of one another inside one node type (op0, op0_b; op2, op2_b): scopes and
            # paths are matched as strings in several places of the code under test
            on = f"op{oc}" if oc % 2 == 0 else f"op{oc - 1}_b"
            oc += 1
            ops[on] = od
            names.append(on)
            if od["out"]:
                outs.append(od["out"])
        names = draw(st.permutations(names))
        ntypes[f"nt{ti}"] = {"ops": list(names), "ov": {}}
    # nodes
    n_nodes = draw(st.integers(cfg.get("min_nodes", 1), cfg.get("max_nodes", 6)))
    depth = draw(st.sampled_from(cfg.get("depths", [0, 0, 0, 1, 1, 2])))
    base_types = list(ntypes)
    nodes = []
    vt = 0
    for i in range(n_nodes):
        bt = draw(st.sampled_from(base_types))
        mode = draw(st.integers(0, 3))
        first_use = bt not in [n[1] for n in nodes]
        if (mode == 0 and not (cfg.get("unique_init") and not first_use)) or not cfg.get("overrides", True):
            nt = bt  # share the template object
        else:
            # a variant of the node type with per-node overrides (its own NodeTemplate object, shared operators)
            ov = {}
            fpc = 0
            for o in ntypes[bt]["ops"]:
                d = {}
                for n, kind, val in ops[o]["vars"]:
                    if kind in ("state", "const") and (draw(st.integers(0, 2)) > 0 or
                                                       (kind == "state" and cfg.get("unique_init"))):
                        if kind == "const" and leak:
                            d[n] = round(0.5 + 0.07 * ((vt * 7 + fpc) % 20), 3)
                        else:
                            d[n] = fingerprint(100 + vt * 13 + fpc, 0.13, 0.0291)
                        fpc += 1
                if d:
                    ov[o] = d
            nt = f"{bt}_v{vt}"
            vt += 1
            ntypes[nt] = {"ops": list(ntypes[bt]["ops"]), "ov": ov}
        if depth == 0:
            path = f"p{i}"
        elif depth == 1:
            path = f"cir{draw(st.integers(0, 1))}/p{i}"
        else:
            path = f"cir{draw(st.integers(0, 1))}/sub{draw(st.integers(0, 1))}/p{i}"
        nodes.append([path, nt])
    if cfg.get("permute_nodes", True):
        nodes = list(draw(st.permutations(nodes)))
    # edges
    targets = []
    sources = []
    for p, nt in nodes:
        for o in ntypes[nt]["ops"]:
            for n, kind, _ in ops[o]["vars"]:
                if kind == "input":
                    targets.append(f"{p}/{o}/{n}")
            for n in edge_sources(ops, o):
                sources.append(f"{p}/{o}/{n}")
    edges = []
    if targets and sources:
        n_edges = draw(st.integers(cfg.get("min_edges", 0), cfg.get("max_edges", 8)))
        wst = st.sampled_from([1.0, 2.0, -1.5, 0.5, 3.0, -0.75, 0.3, -2.0, 1.25, 5.0])
        for _ in range(n_edges):
            c = draw(st.integers(0, 9))
            if not cfg.get("edge_reuse", True) and c < 5:
                c = 9 if draw(st.integers(0, 3)) else c  # reuse of earlier endpoints only in 1/4 of those draws
            if edges and c < 2:
                s, t = edges[draw(st.integers(0, len(edges) - 1))]["s_abs"], None
                t = edges[draw(st.integers(0, len(edges) - 1))]["t_abs"]
            elif edges and c < 4:
                # parallel edge: same pair
                e0 = edges[draw(st.integers(0, len(edges) - 1))]
                s, t = e0["s_abs"], e0["t_abs"]
            elif edges and c < 5:
                # another variable of the same source node into the same target
                e0 = edges[draw(st.integers(0, len(edges) - 1))]
                sn = e0["s_abs"].rsplit("/", 2)[0]
                cand = [x for x in sources if x.rsplit("/", 2)[0] == sn]
                s, t = draw(st.sampled_from(cand)), e0["t_abs"]
            else:
                s, t = draw(st.sampled_from(sources)), draw(st.sampled_from(targets))
            w = draw(wst)
            e = {"s_abs": s, "t_abs": t, "w": w, "d": None, "sp": None, "et": None, "scope": ""}
            # declare inside the deepest common sub-circuit with relative paths (sometimes)
            sp_, tp_ = s.split("/"), t.split("/")
            common = []
            for a_, b_ in zip(sp_[:-3], tp_[:-3]):
                if a_ == b_:
                    common.append(a_)
                else:
                    break
            if common and draw(st.booleans()):
                k = draw(st.integers(1, len(common)))
                e["scope"] = "/".join(common[:k])
                e["s"] = "/".join(sp_[k:])
                e["t"] = "/".join(tp_[k:])
            else:
                e["s"], e["t"] = s, t
            edges.append(e)
    for e in edges:
        e.pop("s_abs"); e.pop("t_abs")
    for od in ops.values():
        od.pop("_alg_dep_in", None)
    return {"ops": ops, "ntypes": ntypes, "nodes": [list(n) for n in nodes], "edges": edges, "etypes": {}}


def probes_strategy(n_state, n=4, lo=-2.0, hi=2.0):
    fl = st.floats(min_value=lo, max_value=hi, allow_nan=False, allow_infinity=False).map(lambda v: round(v, 4))
    return st.lists(st.lists(fl, min_size=n_state, max_size=n_state), min_size=n, max_size=n)


def uniquify_init(spec):
    """Give every state variable of every node a globally unique initial value (via per-node overrides), so that
    its position in a vectorised state vector can be read off the returned y0 without trusting PyRates' bookkeeping."""
    import copy
    spec = copy.deepcopy(spec)
    k = 0
    new_nodes = []
    for i, (p, nt) in enumerate(spec["nodes"]):
        base = spec["ntypes"][nt]
        ov = copy.deepcopy(base.get("ov") or {})
        for o in base["ops"]:
            for n, kind, _ in spec["ops"][o]["vars"]:
                if kind == "state":
                    ov.setdefault(o, {})[n] = round(-0.953 + 0.0137 * k, 4)
                    k += 1
        nn = f"{nt}_u{i}"
        spec["ntypes"][nn] = {"ops": list(base["ops"]), "ov": ov}
        new_nodes.append([p, nn])
    spec["nodes"] = new_nodes
    used = {n for _, n in new_nodes}
    spec["ntypes"] = {k_: v for k_, v in spec["ntypes"].items() if k_ in used}
    return spec


def depends_on(ast, var, names):
    """numerical test: does the expression effectively depend on var (x - x does not)"""
    import numpy as np
    env1 = {n: 0.37 + 0.11 * i for i, n in enumerate(names)}
    env2 = dict(env1)
    env2[var] = env1[var] + 0.7319
    with np.errstate(all="ignore"):
        try:
            a, b = E.evaluate(ast, env1), E.evaluate(ast, env2)
        except Exception:
            return False
    return bool(np.isfinite(a) and np.isfinite(b) and abs(a - b) > 1e-9)


@st.composite
def with_edge_templates(draw, spec, same_keys=None, extra_sources=True):
    """turn some edges of a spec into edges through EdgeTemplates with one algebraic operator (m_e = f(s_e; g_e, c_e)); values
    for g_e / c_e come from the operator, from the template's variations and from the edge attribute dictionaries.
    (Used where the property names edge templates: C15 round trips, C14 histories; RefModel evaluates them.)"""
    import copy
    spec = copy.deepcopy(spec)
    if not spec["edges"]:
        return spec
    n_ops = draw(st.integers(1, 2))
    two_inputs = {}
    for k in range(n_ops):
        # every third edge operator has a second input variable t_e that is fed from a named variable (the coupling
        # functions of the shipped Kuramoto templates: s = sin(theta_s - theta_t))
        two_inputs[k] = extra_sources and draw(st.integers(0, 2)) == 0
        names = ["s_e", "g_e", "c_e"] + (["t_e"] if two_inputs[k] else [])
        ast, _ = draw(E.expr_strategy(names, max_depth=2, funcs=["tanh", "sigmoid", "sin"], allow_pow=False))
        if not depends_on(ast, "s_e", names) or (two_inputs[k] and not depends_on(ast, "t_e", names)):
            ast = ["bin", "*", ["var", "g_e"], ["call", "tanh", ["bin", "*", ["var", "c_e"], ["var", "s_e"]]]]
            if two_inputs[k]:
                ast = ["bin", "*", ["var", "g_e"], ["call", "sin", ["bin", "-", ["var", "s_e"], ["bin", "*", ["var", "c_e"], ["var", "t_e"]]]]]
        vs = E.variables(ast)
        spec["ops"][f"eop{k}"] = {"vars": [["s_e", "input", 0.0], ["m_e", "alg", 0.0]] +
                                          ([["t_e", "input", 0.0]] if two_inputs[k] else []) +
                                          [[v, "const", d] for v, d in (("g_e", 1.5), ("c_e", 0.8)) if v in vs],
                                  "eqs": [["m_e", False, ast, 0]], "out": "m_e"}
    val = st.sampled_from([0.7, 1.3, -0.4, 2.1, 0.25])
    spec["etypes"] = {}
    for k in range(draw(st.integers(1, 2))):
        o = f"eop{draw(st.integers(0, n_ops - 1))}"
        consts = [v[0] for v in spec["ops"][o]["vars"] if v[1] == "const"]
        ov = {}
        if consts and draw(st.booleans()):
            ov = {o: {draw(st.sampled_from(consts)): draw(val)}}
        spec["etypes"][f"et{k}"] = {"ops": [o], "ov": ov}
    if same_keys is None:
        same_keys = draw(st.booleans())
    seen = set()
    xs_var = {}
    for e in spec["edges"]:
        pre = (e.get("scope") + "/") if e.get("scope") else ""
        pair = (pre + e["s"], pre + e["t"])     # absolute: the same pair may be connected from different circuits
        if pair in seen or draw(st.integers(0, 2)) == 0:
            seen.add(pair)
            continue
        seen.add(pair)
        e["et"] = draw(st.sampled_from(sorted(spec["etypes"])))
        o = spec["etypes"][e["et"]]["ops"][0]
        e["ev"] = {}
        for v in [v[0] for v in spec["ops"][o]["vars"] if v[1] == "const"]:
            if same_keys or draw(st.integers(0, 2)) == 0:
                e["ev"][f"{o}/{v}"] = draw(val)
        if any(v[0] == "t_e" for v in spec["ops"][o]["vars"]):
            # the second input reads a state variable of a node inside the circuit that owns the edge (by default the
            # target node's, as in the Kuramoto coupling); the path is relative to that circuit
            scope = e.get("scope") or ""
            cands = []
            for p, nt in spec["nodes"]:
                if scope and not p.startswith(scope + "/"):
                    continue
                rel = p[len(scope) + 1:] if scope else p
                for o2 in spec["ntypes"][nt]["ops"]:
                    for v in spec["ops"][o2]["vars"]:
                        if v[1] == "state":
                            cands.append(f"{rel}/{o2}/{v[0]}")
            tnode = e["t"].rsplit("/", 2)[0]
            own = [c for c in cands if c.rsplit("/", 2)[0] == tnode]
            # (edges that share a template usually read the same variable of their respective target nodes, as in the
            #  Kuramoto templates; different variables per edge are the shape of the listed finding F-04j under vectorisation)
            fixed = xs_var.get(e["et"])
            same_var = [c for c in (own or cands) if fixed and tuple(c.rsplit("/", 2)[1:]) == fixed]
            if same_var and draw(st.integers(0, 9)) > 0:
                choice = draw(st.sampled_from(same_var))
            else:
                choice = draw(st.sampled_from(own if own and draw(st.integers(0, 3)) else cands))
            xs_var.setdefault(e["et"], tuple(choice.rsplit("/", 2)[1:]))
            e["xs"] = {f"{o}/t_e": choice}
    used = {e["et"] for e in spec["edges"] if e.get("et")}
    spec["etypes"] = {k: v for k, v in spec["etypes"].items() if k in used}
    used_ops = {o for et in spec["etypes"].values() for o in et["ops"]}
    for k in [o for o in spec["ops"] if o.startswith("eop") and o not in used_ops]:
        del spec["ops"][k]
    return spec
