"""Model specs (plain JSON), the independent reference semantics, the builder spec -> PyRates objects, and the
uniform observation of PyRates' compiled functions.

spec = {
  "ops":    {opname: {"vars": [[vname, kind, value], ...],          kind in state|alg|input|const
                      "eqs":  [[lhs, is_de, ast, notation], ...],   notation 0: x' = ..   1: d/dt * x = ..
                      "out":  vname|None}},
  "ntypes": {ntname: {"ops": [opname, ...], "ov": {opname: {vname: value}}}},
  "nodes":  [[path, ntname], ...],                                  path 'p0' | 'c0/p0' | 'c0/c1/p0'
  "edges":  [{"s": 'path/op/var', "t": 'path/op/var', "w": float, "d": float|None, "sp": float|None,
              "et": etname|None, "ev": {...}, "scope": ''|'c0'|'c0/c1'}],
  "etypes": {etname: {"ops": [...], "ov": {...}, "in": vname}},
}
"""
import math
import warnings

import numpy as np

from . import expr as E
from .common import HarnessError, Reject

# ======================================================================================================
# reference semantics
# ======================================================================================================


class RefModel:
    def __init__(self, spec):
        self.spec = spec
        self.ops = spec["ops"]
        self.nodes = [(p, spec["ntypes"][nt]) for p, nt in spec["nodes"]]
        self.node_ops = {p: list(nt["ops"]) for p, nt in self.nodes}
        # values[path/op/var] = declared or overridden value ; kind[path/op/var]
        self.values = {}
        self.kind = {}
        self.eq = {}
        for p, nt in self.nodes:
            for o in nt["ops"]:
                od = self.ops[o]
                ov = (nt.get("ov") or {}).get(o, {})
                for vname, kind, val in od["vars"]:
                    key = f"{p}/{o}/{vname}"
                    self.values[key] = float(ov.get(vname, val))
                    self.kind[key] = kind
                for lhs, de, ast, *_ in od["eqs"]:
                    self.eq[f"{p}/{o}/{lhs}"] = (bool(de), ast)
        self.state_paths = [k for k, kd in self.kind.items() if kd == "state"]
        # edges (absolute paths)
        self.edges = []
        for e in spec.get("edges", []):
            sc = e.get("scope") or ""
            pre = sc + "/" if sc else ""
            self.edges.append(dict(e, s=pre + e["s"], t=pre + e["t"]))
        self.in_edges = {}
        for i, e in enumerate(self.edges):
            self.in_edges.setdefault(e["t"], []).append(i)
        # in-node wiring: input var <- ops of the same node whose output has the same name
        self.wiring = {}
        for p, nt in self.nodes:
            for o in nt["ops"]:
                for vname, kind, _ in self.ops[o]["vars"]:
                    if kind != "input":
                        continue
                    srcs = [o2 for o2 in nt["ops"] if o2 != o and self.ops[o2].get("out") == vname]
                    if srcs:
                        self.wiring[f"{p}/{o}/{vname}"] = [f"{p}/{o2}/{vname}" for o2 in srcs]

    def y0(self):
        return {k: self.values[k] for k in self.state_paths}

    def params(self):
        return {k: v for k, v in self.values.items() if self.kind[k] in ("const", "input")}

    # --------------------------------------------------------------------------------------------------
    def evaluator(self, y, params=None, t=0.0, edge_src=None, ext=None, hist=None):
        """Returns value(path) -> (value, magnitude) with memoisation."""
        params = params or {}
        memo = {}
        busy = set()

        def value(path):
            if path in memo:
                return memo[path]
            if path in busy:
                raise HarnessError(f"algebraic loop through {path} (generator should exclude this)")
            busy.add(path)
            kd = self.kind[path]
            if kd == "state":
                v = float(y[path])
                res = (v, abs(v))
            elif kd == "const":
                v = float(params.get(path, self.values[path]))
                res = (v, abs(v))
            elif kd == "alg":
                res = eval_eq(path)
            elif kd == "input":
                tot, mag, any_in = 0.0, 0.0, False
                for src in self.wiring.get(path, ()):
                    v, m = value(src)
                    tot += v
                    mag += m
                    any_in = True
                for ei in self.in_edges.get(path, ()):
                    e = self.edges[ei]
                    if edge_src is not None:
                        r = edge_src(ei, value)
                    else:
                        r = value(e["s"])
                    v, m = r if isinstance(r, tuple) else (r, abs(r))
                    if e.get("et"):
                        v, m = self._edge_operator(ei, e, v, m, params, value)
                    w = float(params.get(f"edge{ei}/weight", e["w"]))
                    tot += w * v
                    mag += abs(w) * m
                    any_in = True
                if ext and path in ext:
                    tot += ext[path]
                    mag += abs(ext[path])
                    any_in = True
                if not any_in:
                    v = float(params.get(path, self.values[path]))
                    tot, mag = v, abs(v)
                res = (tot, mag)
            else:
                raise HarnessError(kd)
            busy.discard(path)
            memo[path] = res
            return res

        def eval_eq(path):
            de, ast = self.eq[path]
            scope = path.rsplit("/", 1)[0]
            env = _Env(scope, value)
            h = None
            if hist is not None:
                def h(vname, delay, scope=scope):
                    return hist(f"{scope}/{vname}", delay)
            with np.errstate(all="ignore"):
                v, m = E.evaluate_mag(ast, env, hist=h, t=t)
            return (float(v), float(m))

        value.eval_eq = eval_eq
        return value

    def _edge_operator(self, ei, e, v, m, params, value=None):
        """edge through an EdgeTemplate with ONE algebraic operator: the source value enters the operator's input variable,
        its output (times the weight) reaches the target.  Values: operator defaults <- template-level variations <-
        the edge's attribute dictionary ('op/var')."""
        et = (self.spec.get("etypes") or {})[e["et"]]
        o = et["ops"][0]
        od = self.ops[o]
        env = {}
        xs = e.get("xs") or {}
        pre = (e.get("scope") + "/") if e.get("scope") else ""
        for vname, kind, val in od["vars"]:
            if kind == "input" and f"{o}/{vname}" in xs:
                # a further input of the edge operator, fed from a named variable (path relative to the edge's circuit)
                xv, xm = value(pre + xs[f"{o}/{vname}"])
                env[vname] = xv
                m = max(m, xm)
            elif kind == "input":
                env[vname] = v
            elif kind == "const":
                val = (et.get("ov") or {}).get(o, {}).get(vname, val)
                val = (e.get("ev") or {}).get(f"{o}/{vname}", val)
                env[vname] = float(params.get(f"edge{ei}/{o}/{vname}", val))
        (lhs, de, ast, *_), = od["eqs"]
        with np.errstate(all="ignore"):
            out, mag = E.evaluate_mag(ast, env)
        return float(out), float(max(mag, abs(out)))

    def vf(self, y, params=None, t=0.0, edge_src=None, ext=None, hist=None):
        """dict state path -> (derivative, magnitude bound)."""
        value = self.evaluator(y, params, t, edge_src, ext, hist)
        return {p: value.eval_eq(p) for p in self.state_paths}

    # --------------------------------------------------------------------------------------------------
    def simulate(self, T_steps, dt, solver="euler", inputs=None, record_every=1, y0=None, params=None, _probe=True):
        """Fixed-step reference integration (Euler / Heun) with discrete edge delays and extrinsic inputs.
        inputs: {target path: array (N,)} sample k held during step k.  Returns array (n_rec, n_state) in
        state_paths order; row j is the state after j*record_every steps (row 0 = initial state).
        A recurrence that amplifies a perturbation of 1e-12 of its initial state by more than a factor 1000 cannot be
        compared at 1e-8 with another floating-point evaluation order: such a (chaotic / explosively growing) reference
        is returned as NaN, which every caller rejects as 'not benign'."""
        if _probe:
            ref = self.simulate(T_steps, dt, solver, inputs, record_every, y0, params, _probe=False)
            if np.all(np.isfinite(ref)):
                base = dict(self.y0() if y0 is None else y0)
                pert = {k: v * (1.0 + 1e-12) + 1e-13 for k, v in base.items()}
                ref2 = self.simulate(T_steps, dt, solver, inputs, record_every, pert, params, _probe=False)
                with np.errstate(all="ignore"):
                    dev = np.max(np.abs(ref2 - ref)) if np.all(np.isfinite(ref2)) else np.inf
                if not dev <= 1e-9 * (1.0 + float(np.max(np.abs(ref)))):
                    return np.full_like(ref, np.nan)
            return ref
        y = dict(self.y0() if y0 is None else y0)
        sp = self.state_paths
        delayed = {}
        for i, e in enumerate(self.edges):
            if e.get("d") is not None and e.get("sp") is None:
                D = int(np.round(e["d"] / dt))
                if D >= 2:
                    delayed[i] = D
        hist_src = {i: [] for i in delayed}
        rec = [[y[p] for p in sp]]

        def mk_edge_src(k):
            def edge_src(ei, value):
                if ei in delayed:
                    h = hist_src[ei]
                    cur = value(self.edges[ei]["s"])
                    if len(h) == k:
                        h.append(cur[0])
                    j = k - delayed[ei]
                    return (h[j], abs(h[j])) if j >= 0 else (0.0, 0.0)
                return value(self.edges[ei]["s"])
            return edge_src

        for k in range(T_steps):
            ext = {p: float(a[k]) for p, a in (inputs or {}).items()}
            es = mk_edge_src(k)
            f1 = self.vf(y, params, t=k, edge_src=es, ext=ext)
            # make sure every delayed source is sampled at step k even if its target was not evaluated
            if delayed:
                val = self.evaluator(y, params, k, None, ext)
                for ei in delayed:
                    if len(hist_src[ei]) == k:
                        hist_src[ei].append(val(self.edges[ei]["s"])[0])
            if solver == "euler":
                y = {p: y[p] + dt * f1[p][0] for p in sp}
            elif solver == "heun":
                yp = {p: y[p] + dt * f1[p][0] for p in sp}
                es2 = None
                if delayed:
                    # the corrector stage looks one step ahead: a delay of D >= 2 steps reads the source value of step
                    # k+1-D, which is an already recorded one
                    def es2(ei, value, k=k):
                        if ei in delayed:
                            j = k + 1 - delayed[ei]
                            return (hist_src[ei][j], abs(hist_src[ei][j])) if j >= 0 else (0.0, 0.0)
                        return value(self.edges[ei]["s"])
                f2 = self.vf(yp, params, t=k, edge_src=es2, ext=ext)
                y = {p: y[p] + 0.5 * dt * (f1[p][0] + f2[p][0]) for p in sp}
            else:
                raise HarnessError(solver)
            if (k + 1) % record_every == 0:
                rec.append([y[p] for p in sp])
        return np.array(rec, dtype=float)


class _Env(dict):
    """Lazy environment: variable name -> value of scope/name."""

    def __init__(self, scope, value):
        super().__init__()
        self.scope = scope
        self.value = value

    def __getitem__(self, name):
        return self.value(f"{self.scope}/{name}")[0]

    def __contains__(self, name):
        return True


# ======================================================================================================
# spec -> PyRates objects
# ======================================================================================================

def render_eq(lhs, de, ast, notation=0, style=None):
    rhs = E.render(ast, style or E.DEFAULT_STYLE)
    if de:
        if notation == 1:
            return f"d/dt * {lhs} = {rhs}"
        if notation == 2:
            return f"d/dt*{lhs} = {rhs}"
        return f"{lhs}' = {rhs}"
    return f"{lhs} = {rhs}"


def var_decl(kind, value, is_out, int_decl=False):
    if int_decl and kind == "const" and float(value) == int(value):
        return int(value)          # a parameter declared with an integer literal (k: 2)
    v = repr(float(value))
    if kind in ("state", "alg"):
        return f"output({v})" if is_out else f"variable({v})"
    if kind == "input":
        return f"input({v})"
    return float(value)


def build_operator(name, od, style=None):
    from pyrates import OperatorTemplate
    eqs = [render_eq(lhs, de, ast, (rest[0] if rest else 0), style) for lhs, de, ast, *rest in od["eqs"]]
    variables = {}
    for vname, kind, val in od["vars"]:
        variables[vname] = var_decl(kind, val, od.get("out") == vname, bool(od.get("int_decl")))
    if any(E.uses_time(ast) for _, _, ast, *_ in od["eqs"]):
        variables["t"] = "variable(0.0)"
    return OperatorTemplate(name=name, equations=eqs, variables=variables, path=None)


def edge_source_attributes(spec, e):
    """edge through an EdgeTemplate whose operator has further input variables fed from named variables (e["xs"]:
    {'<op>/<var>': '<variable path relative to the circuit that owns the edge>'}): the attribute dictionary names the
    input that receives the edge's source ('<template>/<op>/<var>': 'source') and the paths of the other inputs"""
    if not e.get("xs"):
        return {}
    o = spec["etypes"][e["et"]]["ops"][0]
    src_in = next(v[0] for v in spec["ops"][o]["vars"] if v[1] == "input" and f"{o}/{v[0]}" not in e["xs"])
    d = {f"{e['et']}/{o}/{src_in}": "source"}
    for k, path in e["xs"].items():
        d[f"{e['et']}/{k}"] = path
    return d


def build_circuit(spec, name="net", style=None, pool=None):
    """Fresh template objects for every call, unless a `pool` (dict) is passed: operator, node and edge template objects
    found in the pool are used as they are and new ones are put into it (circuits that share template objects)."""
    from pyrates import CircuitTemplate, EdgeTemplate, NodeTemplate
    if pool is not None:
        ops = pool.setdefault("ops", {})
        for o, od in spec["ops"].items():
            if o not in ops:
                ops[o] = build_operator(o, od, style)
        nts, ets = pool.setdefault("nts", {}), pool.setdefault("ets", {})
    else:
        ops = {o: build_operator(o, od, style) for o, od in spec["ops"].items()}
        nts, ets = {}, {}
    for ntname, nt in spec["ntypes"].items():
        if ntname in nts:
            continue
        ov = nt.get("ov") or {}
        # (spec["same_nt_names"]: different NodeTemplate objects may carry one and the same template name)
        tname = "pop" if spec.get("same_nt_names") else ntname
        if any(ov.get(o) for o in nt["ops"]):
            nts[ntname] = NodeTemplate(name=tname, path=None,
                                       operators={ops[o]: dict(ov.get(o, {})) for o in nt["ops"]})
        else:
            nts[ntname] = NodeTemplate(name=tname, path=None, operators=[ops[o] for o in nt["ops"]])
    for etname, et in (spec.get("etypes") or {}).items():
        if etname in ets:
            continue
        ov = et.get("ov") or {}
        ets[etname] = EdgeTemplate(name=etname, path=None,
                                   operators={ops[o]: dict(ov.get(o, {})) for o in et["ops"]})

    def edge_tuple(e):
        # (spec["np_weights"]: weights handed over as numpy scalars, as add_edges_from_matrix and array-valued updates do)
        d = {"weight": np.float64(e["w"]) if spec.get("np_weights") else float(e["w"])}
        if e.get("d") is not None:
            d["delay"] = float(e["d"])
        if e.get("sp") is not None:
            d["spread"] = float(e["sp"])
        for k, v in (e.get("ev") or {}).items():
            d[k] = v
        for k, v in edge_source_attributes(spec, e).items():
            d[k] = v
        return (e["s"], e["t"], ets[e["et"]] if e.get("et") else None, d)

    edges_by_scope = {}
    for e in spec.get("edges", []):
        edges_by_scope.setdefault(e.get("scope") or "", []).append(edge_tuple(e))

    def build_level(prefix, entries, cname):
        # entries: list of (relative path components, ntname) in declaration order
        if all(len(c) == 1 for c, _ in entries):
            nodes = {c[0]: nts[nt] for c, nt in entries}
            return CircuitTemplate(name=cname, path=None, nodes=nodes, edges=edges_by_scope.get(prefix, []))
        groups = {}
        for c, nt in entries:
            if len(c) < 2:
                raise HarnessError("all nodes must have equal depth")
            groups.setdefault(c[0], []).append((c[1:], nt))
        circuits = {}
        for g, sub in groups.items():
            circuits[g] = build_level(f"{prefix}/{g}" if prefix else g, sub, g)
        return CircuitTemplate(name=cname, path=None, circuits=circuits, edges=edges_by_scope.get(prefix, []))

    entries = [(p.split("/"), nt) for p, nt in spec["nodes"]]
    return build_level("", entries, name)


# ======================================================================================================
# observation of PyRates
# ======================================================================================================

class Compiled:
    """Uniform view on the tuple returned by get_run_func."""

    def __init__(self, func, args, names, svm, backend="default", inplace=True, dde=False):
        self.func = func
        self.args = list(args)
        self.names = list(names)
        self.svm = dict(svm)
        self.backend = backend
        self.inplace = inplace
        self.dde = dde
        self.y0 = np.array(_to_numpy(args[1]), dtype=float).ravel()
        self.n = self.y0.size

    def positions(self):
        """frontend state variable -> list of positions, from the returned state_var_map."""
        out = {}
        for k, idx in self.svm.items():
            if isinstance(idx, (tuple, list)) and len(idx) == 2:
                out[k] = list(range(int(idx[0]), int(idx[1])))
            else:
                out[k] = [int(idx)]
        return out

    def arg_index(self, name):
        return self.names.index(name)

    def call(self, t, y, overrides=None, hist=None):
        """Evaluate the vector field; overrides: {argument name: value}.  Always returns a fresh float64 array."""
        args = list(self.args)
        if overrides:
            for nm, val in overrides.items():
                i = self.names.index(nm)
                a = _to_numpy(args[i])
                args[i] = _like(args[i], np.asarray(val, dtype=np.asarray(a).dtype).reshape(np.shape(a)))
        y = np.array(y, dtype=float)
        return _call_vf(self, t, y, args, hist)


def _to_numpy(a):
    if hasattr(a, "detach"):
        return a.detach().cpu().numpy()
    return np.asarray(a)


def _like(proto, arr):
    if hasattr(proto, "detach"):
        import torch
        return torch.as_tensor(arr, dtype=proto.dtype)
    if type(proto).__module__.startswith("jax"):
        import jax.numpy as jnp
        return jnp.asarray(arr, dtype=proto.dtype)
    return arr


def _call_vf(c, t, y, args, hist):
    be = c.backend
    rest = args[2:]
    if c.dde:
        # DDE functions take hist as an extra argument right after y
        pass
    if be in ("default", "numpy", None):
        yy = np.array(y, dtype=np.asarray(args[1]).dtype)
        if c.dde:
            # DDE functions: (t, y, hist, dy, *params); the returned args hold a DDEHistory at position 2
            h = hist if hist is not None else rest[0]
            rest = rest[1:]
        if c.inplace:
            dy = np.zeros_like(np.asarray(rest[0]))
            extra = rest[1:]
            out = c.func(t, yy, h, dy, *extra) if c.dde else c.func(t, yy, dy, *extra)
        else:
            out = c.func(t, yy, h, *rest) if c.dde else c.func(t, yy, *rest)
        return np.array(out, dtype=float).ravel().copy()
    if be == "torch":
        import torch
        yy = torch.as_tensor(np.array(y), dtype=args[1].dtype)
        if c.inplace:
            dy = torch.zeros_like(rest[0])
            out = c.func(t, yy, dy, *rest[1:])
        else:
            out = c.func(t, yy, *rest)
        return np.array(out.detach().cpu().numpy(), dtype=float).ravel().copy()
    if be == "jax":
        import jax.numpy as jnp
        yy = jnp.asarray(np.array(y), dtype=args[1].dtype)
        out = c.func(t, yy, *rest)
        return np.array(out, dtype=float).ravel().copy()
    if be == "fortran":
        yy = np.array(y, dtype=np.asarray(args[1]).dtype)
        dy = np.zeros_like(np.asarray(rest[0]))
        out = c.func(t, yy, dy, *rest[1:])
        res = dy if out is None else out
        return np.array(res, dtype=float).ravel().copy()
    raise HarnessError(f"backend {be}")


_FORTRAN_COUNTER = 0
LAST_FORTRAN_FILE = [None]


def fortran_inexact_literals(path):
    """numeric literals of default (single precision) kind in a generated Fortran routine that are not exactly
    representable in float32 (listed finding F-18a)"""
    import re
    try:
        src = open(path).read()
    except OSError:
        return []
    lits = re.findall(r"(?<![\w.])(\d+\.\d*(?:[eE][-+]?\d+)?|\.\d+(?:[eE][-+]?\d+)?)(?![\w.]|d[-+]?\d)", src)
    return [x for x in lits if float(np.float32(float(x))) != float(x)]


def compile_vf(spec, backend="default", vectorize=False, inplace=True, float_precision="float64", step_size=1e-3,
               inputs=None, adaptive=None, circuit=None, style=None, func_name="pv_vf", solver=None, **kw):
    """Build fresh templates from the spec and call get_run_func.  Exceptions propagate to the caller."""
    from . import isolate
    if circuit is None:
        isolate.reset()
        circuit = build_circuit(spec, style=style)
    kwargs = dict(kw)
    if not inplace:
        kwargs["inplace_vectorfield"] = False
    if adaptive is not None:
        kwargs["adaptive"] = adaptive
    if solver is not None:
        kwargs["solver"] = solver
    file_name = "pv_gen_" + func_name
    if backend == "fortran":
        # a compiled extension module cannot be re-loaded under the same name/path within one process (dlopen returns
        # the library that is already mapped): every Fortran build of this harness gets its own file name
        global _FORTRAN_COUNTER
        _FORTRAN_COUNTER += 1
        import os as _os
        file_name = f"pv_gen_f{_os.getpid()}_{_FORTRAN_COUNTER}"
    with warnings.catch_warnings():
        warnings.simplefilter("ignore")
        func, args, names, svm = circuit.get_run_func(func_name, step_size=step_size, backend=backend,
                                                      vectorize=vectorize, in_place=False, clear=False,
                                                      verbose=False, float_precision=float_precision,
                                                      inputs=inputs, file_name=file_name, **kwargs)
    if backend == "fortran":
        LAST_FORTRAN_FILE[0] = file_name + ".f90"
    dde = "hist" in names
    return Compiled(func, args, names, svm, backend=backend or "default", inplace=inplace, dde=dde)


def run_circuit(spec, T, dt, outputs, solver="euler", backend="default", vectorize=False, dts=None, cutoff=0.0,
                inputs=None, float_precision="float64", circuit=None, **kw):
    from . import isolate
    if circuit is None:
        isolate.reset()
        circuit = build_circuit(spec)
    kwargs = dict(kw)
    if backend == "fortran":
        global _FORTRAN_COUNTER
        _FORTRAN_COUNTER += 1
        import os as _os
        kwargs.setdefault("file_name", f"pv_gen_r{_os.getpid()}_{_FORTRAN_COUNTER}")
        LAST_FORTRAN_FILE[0] = kwargs["file_name"] + ".f90"
    if dts is not None:
        kwargs["sampling_step_size"] = dts
    in_place = kwargs.pop("in_place", False)
    with warnings.catch_warnings():
        warnings.simplefilter("ignore")
        return circuit.run(simulation_time=T, step_size=dt, outputs=outputs, solver=solver, backend=backend,
                           vectorize=vectorize, cutoff=cutoff, inputs=inputs, verbose=False, clear=True,
                           in_place=in_place, float_precision=float_precision, **kwargs)


# ======================================================================================================
# helpers shared by property modules
# ======================================================================================================

def spec_features(spec):
    """Feature tags of a spec (used for labels and for known-finding predicates)."""
    f = set()
    ops = spec["ops"]
    nt = spec["ntypes"]
    nodes = spec["nodes"]
    edges = spec.get("edges", [])
    depth = max(p.count("/") for p, _ in nodes)
    if depth >= 1:
        f.add("depth>=1")
    if depth >= 2:
        f.add("depth>=2")
    for o, od in ops.items():
        if sum(1 for v in od["vars"] if v[1] == "input") >= 2:
            f.add("multi_input_op")
    abs_edges = []
    for e in edges:
        pre = (e.get("scope") + "/") if e.get("scope") else ""
        abs_edges.append((pre + e["s"], pre + e["t"], e))
    pairs = {}
    for s, t, e in abs_edges:
        pairs.setdefault((s, t), []).append(e)
    if any(len(v) > 1 for v in pairs.values()):
        f.add("parallel_edges")
    by_t = {}
    for s, t, e in abs_edges:
        by_t.setdefault(t, []).append(s)
    for t, ss in by_t.items():
        nodes_of = {}
        for s in set(ss):
            nodes_of.setdefault(s.rsplit("/", 2)[0], set()).add(s)
        if any(len(v) > 1 for v in nodes_of.values()):
            f.add("two_vars_one_node_same_target")
        if len(set(ss)) > 1:
            f.add("fan_in")
        tn = t.rsplit("/", 2)[0]
        if any(s.rsplit("/", 2)[0] == tn for s in ss):
            f.add("self_connection")
    if any(e.get("d") is not None and e.get("sp") is None for e in edges):
        f.add("discrete_delay")
    if any(e.get("sp") is not None for e in edges):
        f.add("gamma_delay")
    if any(e.get("et") for e in edges):
        f.add("edge_template")
    if any(e.get("scope") for e in edges):
        f.add("scoped_edge")
    ntcount = {}
    for p, n in nodes:
        ntcount[n] = ntcount.get(n, 0) + 1
    if any(c > 1 for c in ntcount.values()):
        f.add("shared_node_template")
    if any((n.get("ov") or {}) for n in nt.values()):
        f.add("node_overrides")
    return f


def augment_gamma(spec, dde_approx=0):
    """Return the explicitly written augmented ODE system: every edge with (delay d, spread s) - or every delayed edge
    when dde_approx=n - is replaced by a chain node of n = round((d/s)^2) first-order stages of rate n/d (zero initial
    state, unit gain) between source and target.  The user variables keep their paths."""
    import copy
    out = copy.deepcopy(spec)
    depth = max(p.count("/") for p, _ in out["nodes"])
    new_edges = []
    k = 0
    for e in out["edges"]:
        d, s = e.get("d"), e.get("sp")
        if d is None or (s is None and not dde_approx):
            new_edges.append(e)
            continue
        if s is not None and s > 0:
            n = int(np.round((d / s) ** 2))
            if n <= dde_approx:
                n = dde_approx
        else:
            n = dde_approx
        if n <= 0:
            e2 = dict(e, d=None, sp=None)
            new_edges.append(e2)
            continue
        rate = n / d
        on, ntn = f"gchain_op{k}", f"gchain_nt{k}"
        vars_ = [["zin", "input", 0.0], ["kd", "const", rate]] + [[f"z{j}", "state", 0.0] for j in range(1, n + 1)]
        eqs = []
        for j in range(1, n + 1):
            prev = ["var", "zin"] if j == 1 else ["var", f"z{j - 1}"]
            eqs.append([f"z{j}", True, ["bin", "*", ["var", "kd"], ["bin", "-", prev, ["var", f"z{j}"]]], 0])
        out["ops"][on] = {"vars": vars_, "eqs": eqs, "out": f"z{n}"}
        out["ntypes"][ntn] = {"ops": [on], "ov": {}}
        pre = (e.get("scope") + "/") if e.get("scope") else ""
        s_abs, t_abs = pre + e["s"], pre + e["t"]
        comps = s_abs.split("/")[:-3]
        npath = "/".join(comps[:depth] + [f"gch{k}"]) if depth else f"gch{k}"
        out["nodes"].append([npath, ntn])
        new_edges.append({"s": s_abs, "t": f"{npath}/{on}/zin", "w": 1.0, "d": None, "sp": None, "et": None, "scope": ""})
        new_edges.append({"s": f"{npath}/{on}/z{n}", "t": t_abs, "w": e["w"], "d": None, "sp": None, "et": None,
                          "scope": ""})
        k += 1
    out["edges"] = new_edges
    return out
