"""Self-test of the harness' own trusted pieces (reference model, expression evaluator, renderer).  Run by setup_cmd."""
import sys


def main():
    import hypothesis  # noqa
    import numpy  # noqa
    import pyrates  # noqa
    fails = []
    for modname in ("pv.expr", "pv.refmodel"):
        try:
            mod = __import__(modname, fromlist=["selftest"])
        except ImportError:
            continue
        if hasattr(mod, "selftest"):
            try:
                mod.selftest()
            except Exception as e:  # pragma: no cover
                import traceback
                traceback.print_exc()
                fails.append(f"{modname}: {e!r}")
    if fails:
        print("SELFTEST FAILED", fails)
        return 2
    print("SELFTEST OK (pyrates from %s)" % pyrates.__file__)
    return 0


if __name__ == "__main__":
    sys.exit(main())
