"""Greedy structural reducer for cases that contain a model spec (complements Hypothesis' shrinker, which has a hard
time cap).  usage: python -m pv.reduce <ID> <replay.json> [out.json]"""
import copy
import json
import os
import sys
import tempfile

from . import expr as E
from .arm import Ctx


def _subtrees(ast):
    k = ast[0]
    if k in ("neg", "pow"):
        return [ast[1]]
    if k == "bin":
        return [ast[2], ast[3]]
    if k == "call":
        return list(ast[2:])
    return []


def _simplifications(ast):
    """candidate replacements for ast (smaller first)"""
    out = []
    for s in _subtrees(ast):
        out.append(s)
    if ast[0] not in ("num", "var"):
        out.append(["num", 1.0])
    # recurse: replace one child by one of its simplifications
    k = ast[0]
    idxs = {"neg": [1], "pow": [1], "bin": [2, 3], "call": list(range(2, len(ast)))}.get(k, [])
    for i in idxs:
        for s in _simplifications(ast[i]):
            new = list(ast)
            new[i] = s
            out.append(new)
    return out


def _cleanup(spec):
    spec = copy.deepcopy(spec)
    used_nt = {nt for _, nt in spec["nodes"]}
    spec["ntypes"] = {k: v for k, v in spec["ntypes"].items() if k in used_nt}
    used_ops = {o for nt in spec["ntypes"].values() for o in nt["ops"]}
    for et in (spec.get("etypes") or {}).values():
        used_ops |= set(et["ops"])
    spec["ops"] = {k: v for k, v in spec["ops"].items() if k in used_ops}
    for nt in spec["ntypes"].values():
        nt["ov"] = {o: d for o, d in (nt.get("ov") or {}).items() if o in nt["ops"]}
    return spec


def _drop_unused_vars(spec):
    spec = copy.deepcopy(spec)
    endpoints = set()
    for e in spec.get("edges", []):
        endpoints.add(tuple(e["s"].rsplit("/", 2)[1:]))
        endpoints.add(tuple(e["t"].rsplit("/", 2)[1:]))
    for o, od in spec["ops"].items():
        used = set()
        for lhs, de, ast, *_ in od["eqs"]:
            used |= E.variables(ast)
            used.add(lhs)
        keep = []
        for v in od["vars"]:
            if v[0] in used or (o, v[0]) in endpoints:
                keep.append(v)
        od["vars"] = keep
        for nt in spec["ntypes"].values():
            if o in (nt.get("ov") or {}):
                nt["ov"][o] = {k: x for k, x in nt["ov"][o].items() if k in {v[0] for v in keep}}
    return spec


def candidates(case):
    spec = case["spec"]
    # remove edges
    for i in range(len(spec.get("edges", []))):
        s = copy.deepcopy(spec)
        del s["edges"][i]
        yield dict(case, spec=s)
    # remove nodes
    if len(spec["nodes"]) > 1:
        for i, (p, nt) in enumerate(spec["nodes"]):
            s = copy.deepcopy(spec)
            del s["nodes"][i]
            keep = []
            for e in s.get("edges", []):
                pre = (e.get("scope") + "/") if e.get("scope") else ""
                if (pre + e["s"]).rsplit("/", 2)[0] == p or (pre + e["t"]).rsplit("/", 2)[0] == p:
                    continue
                keep.append(e)
            s["edges"] = keep
            yield dict(case, spec=_cleanup(s))
    # flatten hierarchy
    if any("/" in p for p, _ in spec["nodes"]) and "req" not in case and "hist" not in case:
        s = copy.deepcopy(spec)
        ren = {p: p.split("/")[-1] for p, _ in s["nodes"]}
        if len(set(ren.values())) == len(ren):
            s["nodes"] = [[ren[p], nt] for p, nt in s["nodes"]]
            for e in s["edges"]:
                pre = (e.get("scope") + "/") if e.get("scope") else ""
                for k in ("s", "t"):
                    full = pre + e[k]
                    n, o, v = full.rsplit("/", 2)
                    e[k] = f"{ren[n]}/{o}/{v}"
                e["scope"] = ""
            yield dict(case, spec=s)
    # remove operators from node types (only if no edge touches them)
    for ntn, nt in spec["ntypes"].items():
        if len(nt["ops"]) > 1:
            for o in nt["ops"]:
                nodes_of = {p for p, n in spec["nodes"] if n == ntn}
                touched = False
                for e in spec.get("edges", []):
                    pre = (e.get("scope") + "/") if e.get("scope") else ""
                    for k in ("s", "t"):
                        n, oo, _ = (pre + e[k]).rsplit("/", 2)
                        if n in nodes_of and oo == o:
                            touched = True
                if touched:
                    continue
                s = copy.deepcopy(spec)
                s["ntypes"][ntn]["ops"] = [x for x in nt["ops"] if x != o]
                yield dict(case, spec=_cleanup(s))
    # remove overrides
    for ntn, nt in spec["ntypes"].items():
        for o, d in (nt.get("ov") or {}).items():
            for k in d:
                s = copy.deepcopy(spec)
                del s["ntypes"][ntn]["ov"][o][k]
                yield dict(case, spec=s)
    # remove algebraic equations + simplify expressions
    for o, od in spec["ops"].items():
        for i, (lhs, de, ast, *rest) in enumerate(od["eqs"]):
            for simp in _simplifications(ast)[:40]:
                s = copy.deepcopy(spec)
                s["ops"][o]["eqs"][i][2] = simp
                yield dict(case, spec=_drop_unused_vars(s))
            if not de:
                s = copy.deepcopy(spec)
                # turn the algebraic variable into a constant-free removal only if unused elsewhere
                used_elsewhere = any(lhs in E.variables(e2[2]) for j, e2 in enumerate(od["eqs"]) if j != i)
                if not used_elsewhere:
                    del s["ops"][o]["eqs"][i]
                    s["ops"][o]["vars"] = [v for v in s["ops"][o]["vars"] if v[0] != lhs]
                    if s["ops"][o].get("out") == lhs:
                        s["ops"][o]["out"] = None
                    ok = True
                    for e in s.get("edges", []):
                        if e["s"].endswith(f"/{o}/{lhs}"):
                            ok = False
                    if ok:
                        yield dict(case, spec=s)
    # fewer probes
    for key in ("probes", "pprobes"):
        if key in case and len(case[key]) > 1:
            yield dict(case, **{key: case[key][:1]})


def spec_well_formed(spec):
    """references inside a spec resolve: node types / operators exist, edge endpoints, edge templates, per-edge values
    and the extra sources of edge operators name existing variables (a reduction step must not leave the domain)"""
    try:
        ops = spec["ops"]
        for nt in spec["ntypes"].values():
            if any(o not in ops for o in nt["ops"]):
                return False
        var_paths = set()
        for p, nt in spec["nodes"]:
            if nt not in spec["ntypes"]:
                return False
            for o in spec["ntypes"][nt]["ops"]:
                for v in ops[o]["vars"]:
                    var_paths.add(f"{p}/{o}/{v[0]}")
        for e in spec.get("edges", []):
            pre = (e.get("scope") + "/") if e.get("scope") else ""
            if pre + e["s"] not in var_paths or pre + e["t"] not in var_paths:
                return False
            if e.get("et"):
                et = (spec.get("etypes") or {}).get(e["et"])
                if not et or any(o not in ops for o in et["ops"]):
                    return False
                evars = {f"{o}/{v[0]}": v[1] for o in et["ops"] for v in ops[o]["vars"]}
                if any(k not in evars for k in (e.get("ev") or {})):
                    return False
                for k, path in (e.get("xs") or {}).items():
                    if evars.get(k) != "input" or pre + path not in var_paths:
                        return False
                n_in = sum(1 for k, kd in evars.items() if kd == "input")
                if n_in != 1 + len(e.get("xs") or {}):
                    return False
            elif e.get("ev") or e.get("xs"):
                return False
    except Exception:
        return False
    return True


def reduce_case(arm, case, bucket, ctx=None, max_rounds=30, log=None):
    ctx = ctx or Ctx()

    valid = getattr(arm, "valid", None)

    def fails(c):
        try:
            if isinstance(c.get("spec"), dict) and "ops" in c["spec"] and "nodes" in c["spec"] and not spec_well_formed(c["spec"]):
                return False
            if valid is not None and not valid(c):
                return False
            res = arm.run(c, ctx)
        except Exception:
            return False
        return any(v["bucket"] == bucket for v in res.violations)

    if not fails(case):
        return case, False
    cur = case
    for _ in range(max_rounds):
        progressed = False
        for cand in candidates(cur):
            if fails(cand):
                cur = cand
                progressed = True
                if log:
                    log(f"reduced to {len(json.dumps(cur))} bytes")
                break
        if not progressed:
            break
    return cur, True


def main():
    import importlib
    pid, path = sys.argv[1].upper(), sys.argv[2]
    out = sys.argv[3] if len(sys.argv) > 3 else path.replace(".json", ".min.json")
    doc = json.load(open(path))
    mod = importlib.import_module("pv.props." + pid.lower())
    arm = {a.name: a for a in mod.ARMS}[doc["arm"]]
    cwd = os.getcwd()
    scratch = tempfile.mkdtemp(prefix="pvred_")
    os.chdir(scratch)
    try:
        case, ok = reduce_case(arm, doc["case"], doc["bucket"], log=lambda m: print(m, file=sys.stderr))
    finally:
        os.chdir(cwd)
        import shutil
        shutil.rmtree(scratch, ignore_errors=True)
    if not ok:
        print("does not reproduce")
        return 1
    doc["case"] = case
    doc["reduced"] = True
    json.dump(doc, open(out, "w"), indent=1, sort_keys=True)
    print(out)
    return 0


if __name__ == "__main__":
    sys.exit(main())
