"""Predicates over generated cases, one per listed known finding (kept as narrow as the root cause allows).

A predicate sees the JSON case of the arm; it must return True only for the shape whose root cause is the listed finding.
"""
from .findings import predicate


def _abs_edges(spec):
    out = []
    for e in spec.get("edges", []):
        pre = (e.get("scope") + "/") if e.get("scope") else ""
        out.append((pre + e["s"], pre + e["t"], e))
    return out


def _case_edges(case):
    """edges of the spec plus one pseudo edge per (extrinsic input, addressed node): PyRates realises inputs as
    edges from an input node, so the vectorisation defects that depend on the edge pattern apply to them as well"""
    spec = case["spec"]
    out = _abs_edges(spec)
    if case.get("inputs"):
        from .props.c06 import match
        from .props.c08 import ordered_nodes
        kinds = {f"{p}/{o}/{v[0]}" for p, nt in spec["nodes"] for o in spec["ntypes"][nt]["ops"]
                 for v in spec["ops"][o]["vars"]}
        for i, inp in enumerate(case["inputs"]):
            *pat, op, var = inp["target"].split("/")
            for p in ordered_nodes(spec):
                if match("/".join(pat), p) and f"{p}/{op}/{var}" in kinds:
                    out.append((f"__input{i}/{var}_input_op/{var}_timed_input", f"{p}/{op}/{var}", {"w": 1.0}))
    return out


def _node(p):
    return p.rsplit("/", 2)[0]


def _var(p):
    return p.rsplit("/", 1)[1]


def _op(p):
    return p.rsplit("/", 2)[1]


def _opk(spec, path, vectorize):
    """operator identity of a variable path: the operator name, or (vectorised) its structure - vectorisation merges
    nodes whose operators are structurally identical even when the operator templates carry different names"""
    o = _op(path)
    if not vectorize or o not in spec["ops"]:
        return o
    od = spec["ops"][o]
    return str((tuple(map(str, od["eqs"])), tuple((v[0], v[1]) for v in od["vars"]), od.get("out")))


def _merged_node_key(spec, node_path, vectorize):
    """Nodes that vectorisation merges into one IR node share this key (same operator structure)."""
    if not vectorize or node_path.startswith("__input"):
        return node_path
    nt = dict((p, n) for p, n in spec["nodes"])[node_path]
    ops = spec["ntypes"][nt]["ops"]
    # structure = equations + variable kinds of every operator (values do not matter)
    key = []
    for o in ops:
        od = spec["ops"][o]
        key.append((tuple(map(str, od["eqs"])), tuple((v[0], v[1]) for v in od["vars"]), od.get("out")))
    return str(sorted(key))


def _wired_inputs(spec):
    """input paths that receive an in-node (same name) operator output"""
    wired = set()
    for p, nt in spec["nodes"]:
        ops = spec["ntypes"][nt]["ops"]
        for o in ops:
            for v in spec["ops"][o]["vars"]:
                if v[1] == "input" and any(o2 != o and spec["ops"][o2].get("out") == v[0] for o2 in ops):
                    wired.add(f"{p}/{o}/{v[0]}")
    return wired


@predicate("F-01c")
def two_source_vars_of_one_ir_node_into_one_target(case):
    """edges from two DIFFERENT source variables of the same IR node into the same target variable"""
    spec = case["spec"]
    vec = bool(case.get("cfg", {}).get("vectorize"))
    by_t = {}
    for s, t, e in _abs_edges(spec):
        tk = (_merged_node_key(spec, _node(t), vec), _opk(spec, t, vec), _var(t)) if vec else t
        by_t.setdefault(tk, set()).add((_merged_node_key(spec, _node(s), vec), _opk(spec, s, vec), _var(s)))
    for tk, srcs in by_t.items():
        per_node = {}
        for n, o, v in srcs:
            per_node.setdefault(n, set()).add((o, v))
        if any(len(x) > 1 for x in per_node.values()):
            return True
    return False


_IN_RE = None


@predicate("F-01e")
def edge_operator_operand_name_collision(case):
    """The in_edge operator PyRates generates names its operands after the source variable, the target variable and
    the literal `weight` (suffixed _in<k> when several source nodes feed one target).  Collisions between these names:
      * source variable and target variable carry the same name,
      * an edge endpoint variable is itself called `weight`,
      * the source or target operator declares a variable called <src>_in<k>, <tgt>_in<k> or weight_in<k>."""
    import re
    spec = case["spec"]
    vec = bool(case.get("cfg", {}).get("vectorize"))
    wired = _wired_inputs(spec)
    srcnodes = {}
    for s, t, e in _abs_edges(spec):
        srcnodes.setdefault(t, set()).add(_merged_node_key(spec, _node(s), vec))
    for s, t, e in _abs_edges(spec):
        sv, tv = _var(s), _var(t)
        if sv == tv:
            return True
        if sv == "weight" or tv == "weight":
            return True
        pat = re.compile(r"^(%s|%s|weight)_in\d+$" % (re.escape(sv), re.escape(tv)))
        for o in (_op(s), _op(t)):
            if any(pat.match(v[0]) for v in spec["ops"][o]["vars"]):
                return True
    return False


def _walk(ast):
    yield ast
    k = ast[0]
    if k in ("neg", "pow"):
        yield from _walk(ast[1])
    elif k == "bin":
        yield from _walk(ast[2])
        yield from _walk(ast[3])
    elif k == "call":
        for a in ast[2:]:
            yield from _walk(a)


def _has_var(ast):
    return any(n[0] in ("var", "past", "t", "idx") for n in _walk(ast))


def _all_asts(case):
    if "spec" in case:
        for od in case["spec"]["ops"].values():
            for e in od["eqs"]:
                yield e[2]
    if "ast" in case:
        yield case["ast"]


def _is_constant_expr(ast):
    """no variable, or numerically constant (e.g. rr-rr, which sympy folds to 0 before the call is evaluated)"""
    if not _has_var(ast):
        return True
    from . import expr as E
    import numpy as np
    names = sorted(E.variables(ast))
    try:
        with np.errstate(all="ignore"):
            v1 = E.evaluate(ast, {n: 0.37 + 0.11 * i for i, n in enumerate(names)})
            v2 = E.evaluate(ast, {n: 1.61 - 0.23 * i for i, n in enumerate(names)})
        return bool(np.all(np.isfinite([v1, v2])) and abs(v1 - v2) < 1e-13)
    except Exception:
        return False


@predicate("F-05b")
def call_on_constant_arguments(case):
    """a function call all of whose arguments are constant expressions, e.g. sigmoid(0.5), absv(3), absv(x-x)"""
    for ast in _all_asts(case):
        for n in _walk(ast):
            if n[0] == "call" and all(_is_constant_expr(a) for a in n[2:]):
                return True
    return False


import re as _re

_GEN_LABEL = _re.compile(r"^(.+)_v(\d+)$")


@predicate("F-01d")
def user_name_equals_generated_unique_label(case):
    """a user variable named <x>_v<k> while another variable named <x> exists in the model (the compute graph derives
    x_v1, x_v2 ... for same-named variables without checking for an existing variable of that name)"""
    spec = case["spec"]
    names = {v[0] for od in spec["ops"].values() for v in od["vars"]}
    for n in names:
        m = _GEN_LABEL.match(n)
        if m and m.group(1) in names:
            return True
    return False


@predicate("F-05c")
def nested_call_of_same_function(case):
    """f(... f(...) ...): the textual post-processing of nested identical calls breaks (TypeError at compile time)"""
    def inner_has(ast, f):
        return any(n[0] == "call" and n[1] == f for n in _walk(ast))
    if case.get("form") == "index_nested":      # index(index(A, j), k)
        return True
    if "form" in case:
        return False
    for ast in _all_asts(case):
        for n in _walk(ast):
            if n[0] == "call" and any(inner_has(a, n[1]) for a in n[2:]):
                return True
    return False


def _groups(spec, vec):
    """merged IR node key -> list of node paths (declaration order)"""
    g = {}
    for p, _ in spec["nodes"]:
        g.setdefault(_merged_node_key(spec, p, vec), []).append(p)
    return g


@predicate("F-04a")
def vectorized_fan_in_to_single_unit(case):
    """vectorize=True: within one (source variable -> target variable) group of merged nodes, all edges end in ONE
    target unit and come from >=2 different source units of a merged source node"""
    if not case.get("cfg", {}).get("vectorize"):
        return False
    spec = case["spec"]
    groups = _groups(spec, True)
    by = {}
    for s, t, e in _case_edges(case):
        k = (_merged_node_key(spec, _node(s), True), _opk(spec, s, True), _var(s),
             _merged_node_key(spec, _node(t), True), _opk(spec, t, True), _var(t), e.get("d") is not None)
        by.setdefault(k, []).append((_node(s), _node(t)))
    for k, lst in by.items():
        tgt_units = {t for _, t in lst}
        src_units = {s for s, _ in lst}
        if len(tgt_units) == 1 and len(src_units) >= 2:
            return True
    return False


@predicate("F-04b")
def vectorized_equation_without_vector_operands(case):
    """vectorize=True: an equation whose right-hand side has no vector-valued operand - a constant expression
    (x' = 1, k = 0.5, z = x - x) on a merged node with >=2 units, or an algebraic variable that depends only on
    parameters (r = f; parameters with one distinct value are collapsed to scalars) and is used as an edge source"""
    if not case.get("cfg", {}).get("vectorize"):
        return False
    from . import expr as E
    spec = case["spec"]
    groups = _groups(spec, True)
    size = {}
    for key, paths in groups.items():
        for p in paths:
            size[p] = len(paths)
    edge_src = {(_node(s), _op(s), _var(s)) for s, t, e in _abs_edges(spec)}
    for p, ntn in spec["nodes"]:
        for o in spec["ntypes"][ntn]["ops"]:
            od = spec["ops"][o]
            kinds = {v[0]: v[1] for v in od["vars"]}
            for e in od["eqs"]:
                if _is_constant_expr(e[2]) and size[p] >= 2:
                    return True
                only_params = all(kinds.get(v) == "const" for v in E.variables(e[2]))
                if only_params and not e[1] and (p, o, e[0]) in edge_src:
                    return True
    return False


@predicate("F-04c")
def vectorized_wired_input_with_edges_to_some_units(case):
    """vectorize=True: an input variable that is wired in-node AND receives edges on only some of the merged nodes:
    the declared default is added on the units without an edge"""
    if not case.get("cfg", {}).get("vectorize"):
        return False
    spec = case["spec"]
    wired = _wired_inputs(spec)
    groups = _groups(spec, True)
    tgt = {}
    for s, t, e in _case_edges(case):
        tgt.setdefault((_merged_node_key(spec, _node(t), True), _opk(spec, t, True), _var(t)), set()).add(_node(t))
    wired_k = {(_merged_node_key(spec, _node(w), True), _opk(spec, w, True), _var(w)) for w in wired}
    for (gk, o, v), units in tgt.items():
        paths = groups[gk]
        if len(units) < len(paths) and (gk, o, v) in wired_k:
            return True
    return False


@predicate("F-04d")
def vectorized_multi_source_input_with_unconnected_units(case):
    """vectorize=True: a target variable of a merged node that receives edges from >=2 different source IR nodes while
    some unit of the merged node receives no edge at all: that unit reads 0 instead of the declared default"""
    if not case.get("cfg", {}).get("vectorize"):
        return False
    spec = case["spec"]
    groups = _groups(spec, True)
    tgt = {}
    for s, t, e in _case_edges(case):
        k = (_merged_node_key(spec, _node(t), True), _opk(spec, t, True), _var(t))
        d = tgt.setdefault(k, {"units": set(), "src": set()})
        d["units"].add(_node(t))
        d["src"].add(_merged_node_key(spec, _node(s), True))
    for (gk, o, v), d in tgt.items():
        if len(d["src"]) >= 2 and len(d["units"]) < len(groups[gk]):
            return True
    return False


# ------------------------------------------------------------------------------------------------------
# repairs: for the most frequent finding shapes the generator output is repaired instead of discarded
# (the repaired case is what runs and what is hashed; it carries "_repaired": [finding ids])

def repair_case(case, ctx):
    import copy
    active = set(ctx.active_findings)
    copied = False
    if "F-01c" in active and "spec" in case and two_source_vars_of_one_ir_node_into_one_target(case):
        case = copy.deepcopy(case)
        copied = True
        spec = case["spec"]
        vec = bool(case.get("cfg", {}).get("vectorize"))
        seen = {}
        keep = []
        for e in spec.get("edges", []):
            pre = (e.get("scope") + "/") if e.get("scope") else ""
            s, t = pre + e["s"], pre + e["t"]
            tk = (_merged_node_key(spec, _node(t), vec), _opk(spec, t, vec), _var(t)) if vec else t
            sn = _merged_node_key(spec, _node(s), vec)
            sv = (_opk(spec, s, vec), _var(s))
            if seen.setdefault((tk, sn), sv) != sv:
                continue
            keep.append(e)
        spec["edges"] = keep
        case.setdefault("_repaired", []).append("F-01c")
    if ("F-09b" in active and "spec" in case and same_pair_connected_twice_from_a_buffered_source(case)) or \
            ("F-09g" in active and "spec" in case and same_pair_connected_twice_gamma_or_dde(case)):
        if not copied:
            case = copy.deepcopy(case)
        spec = case["spec"]
        seen, keep = set(), []
        for e in spec.get("edges", []):
            pre = (e.get("scope") + "/") if e.get("scope") else ""
            k = (pre + e["s"], pre + e["t"])
            if k in seen:
                continue
            seen.add(k)
            keep.append(e)
        spec["edges"] = keep
        case.setdefault("_repaired", []).append("F-09b")
    if "F-09e" in active and "spec" in case and two_delayed_source_variables_in_one_operator(case):
        if not copied:
            case = copy.deepcopy(case)
        spec = case["spec"]
        vec = bool(case.get("cfg", {}).get("vectorize"))
        first = {}
        for e in spec.get("edges", []):
            if e.get("d") is None:
                continue
            pre = (e.get("scope") + "/") if e.get("scope") else ""
            s_ = pre + e["s"]
            k = (_merged_node_key(spec, _node(s_), vec), _opk(spec, s_, vec))
            if first.setdefault(k, _var(s_)) != _var(s_):
                e["d"] = None
                e["sp"] = None
        case.setdefault("_repaired", []).append("F-09e")
    return case


@predicate("F-03a")
def explicit_time_under_fixed_step_solver(case):
    """an equation that mentions the time variable t, simulated with a fixed-step solver (euler/heun): t is the step
    counter there, not the time"""
    from . import expr as E
    if case.get("cfg", {}).get("solver") not in ("euler", "heun"):
        return False
    return any(E.uses_time(a) for a in _all_asts(case))


@predicate("F-08a")
def inputs_into_depth2_hierarchy(case):
    """extrinsic inputs on a circuit with two or more hierarchy levels"""
    return bool(case.get("inputs")) and max(p.count("/") for p, _ in case["spec"]["nodes"]) >= 2


@predicate("F-05d")
def rhs_cancels_to_constant(case):
    """an equation whose right-hand side mentions variables but simplifies to a constant (z = x - x)"""
    for ast in _all_asts(case):
        if _has_var(ast) and _is_constant_expr(ast):
            return True
    return False


def _delayed(e):
    return e.get("d") is not None


@predicate("F-09b")
def same_pair_connected_twice_from_a_buffered_source(case):
    """>=2 edges between the same source variable and the same target variable while the source variable (of the IR
    node: vectorisation merges units) has at least one delayed edge, so that all its edges go through the delay
    buffer"""
    spec = case["spec"]
    vec = bool(case.get("cfg", {}).get("vectorize"))
    pairs, buffered = {}, set()
    for s, t, e in _abs_edges(spec):
        pairs.setdefault((s, t), []).append(e)
        if _delayed(e):
            buffered.add((_merged_node_key(spec, _node(s), vec), _opk(spec, s, vec), _var(s)))
    for (s, t), v in pairs.items():
        if len(v) >= 2 and (_merged_node_key(spec, _node(s), vec), _opk(spec, s, vec), _var(s)) in buffered:
            return True
    return False


@predicate("F-09g")
def same_pair_connected_twice_gamma_or_dde(case):
    """>=2 edges between the same source variable and the same target variable while the source variable (of the IR
    node) has a delayed edge that is NOT realised by a discrete ring buffer: a gamma kernel (delay with spread, or
    dde_approx) or, under an adaptive solver, a past() look-up.  (The discrete case was repaired: fixed F-09b.)"""
    spec = case["spec"]
    cfg = case.get("cfg", {})
    vec = bool(cfg.get("vectorize"))
    adaptive = bool(cfg.get("adaptive")) or str(cfg.get("solver", "")).startswith("scipy") or bool(cfg.get("dde_approx"))
    pairs, special = {}, set()
    for s, t, e in _abs_edges(spec):
        pairs.setdefault((s, t), []).append(e)
        if _delayed(e) and (adaptive or e.get("sp")):
            special.add((_merged_node_key(spec, _node(s), vec), _opk(spec, s, vec), _var(s)))
    for (s, t), v in pairs.items():
        if len(v) >= 2 and (_merged_node_key(spec, _node(s), vec), _opk(spec, s, vec), _var(s)) in special:
            return True
    return False


@predicate("F-04i")
def parallel_edges_through_edge_templates(case):
    """>=2 edges that go through an EdgeTemplate between the same source variable and the same target variable (wherever
    in the hierarchy they are declared): the frontend bundles them into one edge with list-valued attributes"""
    spec = case.get("spec") or {}
    seen = {}
    for s, t, e in _abs_edges(spec):
        if e.get("et"):
            seen[(s, t)] = seen.get((s, t), 0) + 1
    return any(n >= 2 for n in seen.values())


@predicate("F-04j")
def vectorized_template_with_different_extra_source_variables(case):
    """vectorize=True: edges through one EdgeTemplate whose additional operator input (string-valued edge attribute) is
    fed from DIFFERENT variables (operator/variable names differ between the edges; different nodes of one variable are
    fine): the grouped edge operator reads one of them for all edges"""
    if not case.get("cfg", {}).get("vectorize"):
        return False
    spec = case.get("spec") or {}
    seen = {}
    for e in spec.get("edges", []):
        for k, path in (e.get("xs") or {}).items():
            key = (e.get("et"), k)
            var = tuple(path.rsplit("/", 2)[1:])
            if seen.setdefault(key, var) != var:
                return True
    return False


@predicate("F-09e")
def two_delayed_source_variables_in_one_operator(case):
    """one operator (of one IR node) has >=2 different variables that are sources of delayed edges: the generated
    buffer variables collide (PyRatesException 'Buffer variable name collision')"""
    spec = case["spec"]
    vec = bool(case.get("cfg", {}).get("vectorize"))
    by_op = {}
    for s, t, e in _abs_edges(spec):
        if _delayed(e):
            by_op.setdefault((_merged_node_key(spec, _node(s), vec), _opk(spec, s, vec)), set()).add(_var(s))
    return any(len(v) >= 2 for v in by_op.values())


def _kernel(e, dde=0):
    """(order, rate) of the ODE chain an edge is approximated by (dde_approx lifts every order to at least dde and turns
    plain delays into chains too)"""
    import numpy as np
    if e.get("sp") is not None and e.get("d") is not None:
        n = max(int(np.round((e["d"] / e["sp"]) ** 2)), dde)
        return (n, round(n / e["d"], 9))
    if dde and e.get("d"):
        return (dde, round(dde / e["d"], 9))
    return (0, 0.0)


@predicate("F-11a")
def vectorized_single_source_unit_with_shared_kernel_group(case):
    """vectorize=True: a source variable of an un-merged (single-unit) node that has a gamma-kernel edge and two or
    more outgoing edges in one (order, rate) group (two edges with the same kernel, or two plain edges next to a gamma
    edge): IndexError 'invalid index to scalar variable' when the function is called"""
    if not case.get("cfg", {}).get("vectorize"):
        return False
    spec = case["spec"]
    groups = _groups(spec, True)
    by_src = {}
    for s, t, e in _abs_edges(spec):
        by_src.setdefault(s, []).append(e)
    for s, es in by_src.items():
        if len(groups[_merged_node_key(spec, _node(s), True)]) != 1:
            continue
        dde = int(case.get("cfg", {}).get("dde_approx") or 0)
        if not any(_kernel(e, dde)[0] for e in es):
            continue
        ks = [_kernel(e, dde) for e in es]
        if any(ks.count(k) >= 2 for k in set(ks)):
            return True
    return False


@predicate("F-11b")
def discrete_delay_next_to_gamma_kernel_on_one_source(case):
    """a source variable (of one IR node: vectorisation merges the units of a node type) with a gamma-kernel edge
    (delay+spread) and a discrete-delay edge (delay only): the discrete delay is dropped (the ODE-approximation branch
    gives it order 0)"""
    spec = case["spec"]
    if case.get("cfg", {}).get("dde_approx"):
        return False      # with dde_approx the plain delay becomes a chain of that order itself
    vec = bool(case.get("cfg", {}).get("vectorize"))
    by_src = {}
    for s, t, e in _abs_edges(spec):
        by_src.setdefault((_merged_node_key(spec, _node(s), vec), _opk(spec, s, vec), _var(s)), []).append(e)
    for es in by_src.values():
        if any(e.get("sp") is not None for e in es) and any(e.get("d") is not None and e.get("sp") is None for e in es):
            return True
    return False


def _past_coeffs(ast, coef=1.0, out=None):
    """numeric coefficient with which each past() term enters its additive context (None when it sits under a
    non-numeric factor or a function call)"""
    out = [] if out is None else out
    k = ast[0]
    if k == "past":
        out.append(coef)
    elif k == "neg":
        _past_coeffs(ast[1], None if coef is None else -coef, out)
    elif k == "bin":
        op, a, b = ast[1], ast[2], ast[3]
        if op == "+":
            _past_coeffs(a, coef, out); _past_coeffs(b, coef, out)
        elif op == "-":
            _past_coeffs(a, coef, out); _past_coeffs(b, None if coef is None else -coef, out)
        elif op == "*":
            if a[0] == "num":
                _past_coeffs(b, None if coef is None else coef * a[1], out)
            elif b[0] == "num":
                _past_coeffs(a, None if coef is None else coef * b[1], out)
            else:
                _past_coeffs(a, None, out); _past_coeffs(b, None, out)
        else:
            _past_coeffs(a, None, out); _past_coeffs(b, None, out)
    elif k in ("pow",):
        _past_coeffs(ast[1], None, out)
    elif k == "call":
        for x in ast[2:]:
            _past_coeffs(x, None, out)
    return out


@predicate("F-10a")
def past_term_nested_in_product_or_negated(case):
    """a delayed term with a negative numeric coefficient next to other additive terms (x' = p - x(t-tau),
    x' = p - 0.5*past(x,tau)) or multiplied with an instantaneous variable (x' = p + 0.5*past(x,tau)*w): the code
    generator expects the past() call itself where it finds a product containing it and compilation fails (TypeError
    'Cannot convert expression to float' / KeyError).  Forms such as x' = -x(t-tau), x' = p - a*x(t-tau) and
    x' = p + 0.5*x(t-tau) compile."""
    for ast in _all_asts(case):
        if any(c is None or c < 0 for c in _past_coeffs(ast)):
            return True
    return False


def _model_funcs(case):
    from . import expr as E
    f = set()
    for ast in _all_asts(case):
        f |= E.funcs_used(ast)
    return f


@predicate("F-12a")
def derivative_needs_unimported_function(case):
    """Jacobian of a model that uses sin, cos, sinh or cosh: the derivative introduces the companion function, which
    the generated Jacobian module imports only in some constellations (e.g. not when the companion is absent from the
    model or only applied to constants): NameError when the Jacobian function is called"""
    return bool(_model_funcs(case) & {"sin", "cos", "sinh", "cosh"})


@predicate("F-12d")
def derivative_of_function_unknown_to_sympy(case):
    """Jacobian of a model that uses arcsin, arccos, arctan or absv: these names are not sympy functions, their
    derivative stays unevaluated and the affected Jacobian entries are silently set to 0"""
    return bool(_model_funcs(case) & {"arcsin", "arccos", "arctan", "absv"})


@predicate("F-12c")
def instantaneous_jacobian_entry_with_delayed_factor(case):
    """a delayed term multiplied with an instantaneous state variable (past(x,tau)*w): the entry of J0 with respect to
    w still contains the delayed factor, for which the Jacobian function defines no variable (NameError _past_...)"""
    for ast in _all_asts(case):
        if any(c is None for c in _past_coeffs(ast)):
            return True
    return False


# ---- population / connectivity specs (C16) -------------------------------------------------------------

def _pspec(case):
    return case.get("pspec")


@predicate("F-16b")
def two_connectivities_from_one_population_into_one_variable(case):
    """two Connectivity objects from the same source population (same or different source variables) into the same
    target variable"""
    ps = _pspec(case)
    if not ps:
        return False
    pairs = [(c["s"].split("/")[0], c["t"]) for c in ps["conns"]]
    return len(set(pairs)) < len(pairs)


@predicate("F-16c")
def coupling_edge_between_different_populations(case):
    """a Connectivity with a coupling EdgeTemplate whose source and target populations differ"""
    ps = _pspec(case)
    if not ps:
        return False
    return any(c.get("coupling") and c["s"].split("/")[0] != c["t"].split("/")[0] for c in ps["conns"])


@predicate("F-16d")
def single_unit_population_in_nontrivial_connectivity(case):
    """a population with a single unit (n=1) that is source or target of a Connectivity which carries a
    coupling EdgeTemplate (the other forms were repaired, F-16i)"""
    ps = _pspec(case)
    if not ps:
        return False
    size = {p[0]: p[2] for p in ps["pops"]}
    for c in ps["conns"]:
        ns, nt = size[c["s"].split("/")[0]], size[c["t"].split("/")[0]]
        if (ns == 1 or nt == 1) and c.get("coupling"):
            return True
    return False


@predicate("F-16e")
def population_equation_without_vector_operands(case):
    """population (always vectorised) whose operator has an equation that effectively depends on parameters, numbers and
    input variables only (V = -k, x' = xin + pi, x' = 2*alpha with alpha driven by a Connectivity): when the node
    operators are parsed the inputs still have their scalar default shape, parameters with one distinct value are
    collapsed to scalars, and the equation loses its vector shape ('Shapes of state variable ... do not match' or wrong
    per-unit values)"""
    ps = _pspec(case)
    if not ps:
        return False
    for name, nt, n, params in ps["pops"]:
        for o in ps["ntypes"][nt]["ops"]:
            od = ps["ops"][o]
            kinds = {v[0]: v[1] for v in od["vars"]}
            for e in od["eqs"]:
                if all(kinds.get(v) in ("const", "input") for v in _effective_vars(e[2])):
                    return True
    return False


def _effective_vars(ast):
    """variables whose value actually influences the expression (x*a - a*x influences nothing)"""
    from . import expr as E
    import numpy as np
    names = sorted(E.variables(ast))
    base = {n: 0.37 + 0.11 * i for i, n in enumerate(names)}
    out = set()
    try:
        with np.errstate(all="ignore"):
            v0 = E.evaluate(ast, base)
            for n in names:
                for delta in (0.4321, -0.777):
                    env = dict(base)
                    env[n] = base[n] + delta
                    v1 = E.evaluate(ast, env)
                    if not (np.isfinite(v0) and np.isfinite(v1)) or abs(v1 - v0) > 1e-12:
                        out.add(n)
                        break
    except Exception:
        return set(names)
    return out


@predicate("F-16f")
def two_delayed_connectivities_from_one_source_variable(case):
    """two delayed Connectivity objects leaving the same source variable: their delay buffers collide on the buffer
    variable names and targets receive wrongly delayed values"""
    ps = _pspec(case)
    if not ps:
        return False
    src = [c["s"] for c in ps["conns"] if c.get("d") is not None]
    return len(set(src)) < len(src)


@predicate("F-16g")
def scalar_weight_connectivity_as_only_vector_operand(case):
    """a scalar-weight (global) Connectivity delivers a scalar; when its target input is the only non-parameter operand
    of an equation, the equation loses its vector shape ('Shapes of state variable ... do not match')"""
    ps = _pspec(case)
    if not ps:
        return False
    from . import expr as E
    pop_nt = {p[0]: p[1] for p in ps["pops"]}
    scalar_targets = {c["t"] for c in ps["conns"] if not isinstance(c["W"], list)}
    matrix_targets = {c["t"] for c in ps["conns"] if isinstance(c["W"], list)}
    for t in scalar_targets - matrix_targets:
        pop, o, v = t.split("/")
        od = ps["ops"][o]
        kinds = {x[0]: x[1] for x in od["vars"]}
        for e in od["eqs"]:
            vs = _effective_vars(e[2])
            if v in vs and all(kinds.get(x) == "const" or x == v for x in vs):
                return True
    return False


@predicate("F-16h")
def coupling_connectivity_next_to_another_into_one_variable(case):
    """a target variable that receives a Connectivity with a coupling EdgeTemplate together with a further
    Connectivity: NameError (<src>_in<k>) when the function is called"""
    ps = _pspec(case)
    if not ps:
        return False
    by_t = {}
    for c in ps["conns"]:
        by_t.setdefault(c["t"], []).append(c)
    return any(len(v) >= 2 and any(c.get("coupling") for c in v) for v in by_t.values())


def _nums(ast, out=None):
    out = [] if out is None else out
    k = ast[0]
    if k == "num":
        out.append(float(ast[1]))
    elif k in ("neg",):
        _nums(ast[1], out)
    elif k == "pow":
        _nums(ast[1], out)
        out.append(float(ast[2]))
    elif k == "bin":
        _nums(ast[2], out); _nums(ast[3], out)
    elif k == "call":
        for a in ast[2:]:
            _nums(a, out)
    return out


@predicate("F-18a")
def fortran_single_precision_literal(case):
    """Fortran backend with float_precision='float64': numeric literals of the equations are written as default-kind
    (single precision) constants, so a literal that is not exactly representable in float32 (0.1, 0.05) enters the
    generated vector field with a relative error of ~1e-8"""
    import numpy as np
    if case.get("cfg", {}).get("backend", "fortran") != "fortran":
        return False
    from . import expr as E
    for ast in _all_asts(case):
        if any(float(np.float32(v)) != v for v in _nums(ast)):
            return True
        # constant sub-expressions are folded by sympy into one literal ((0.5+2*2)**1.5 -> 9.54594154601839); a division
        # by a constant becomes a multiplication with its reciprocal (q/1.5 -> 0.666666666666667*q)
        for sub in _walk(ast):
            if sub[0] == "bin" and sub[1] == "/" and not _has_var(sub[3]):
                try:
                    with np.errstate(all="ignore"):
                        v = 1.0 / float(E.evaluate(sub[3], {}))
                    if np.isfinite(v) and float(np.float32(v)) != v:
                        return True
                except Exception:
                    return True
            if sub[0] in ("bin", "pow", "call", "neg") and not _has_var(sub):
                try:
                    with np.errstate(all="ignore"):
                        v = float(E.evaluate(sub, {}))
                    if np.isfinite(v) and float(np.float32(v)) != v:
                        return True
                except Exception:
                    return True
    return False


def _uses_const(ast, name):
    return any(n[0] == "const" and n[1] == name for n in _walk(ast))


@predicate("F-02b")
def torch_function_of_numeric_constant(case):
    """torch backend: Euler's number E (printed by sympy as exp(1), E*E as exp(2)) or any function call on purely
    numeric arguments reaches torch.exp/... as a Python number: TypeError 'argument must be Tensor' when called"""
    if case.get("cfg", {}).get("backend") != "torch":
        return False
    # algebraic variables whose right-hand side is numerically constant (alpha - alpha) are plain Python numbers in the
    # generated code, too: a call whose arguments depend on nothing else is affected in the same way
    spec = case.get("spec") or {}
    const_alg = set()
    for od in (spec.get("ops") or {}).values():
        kinds = {v[0]: v[1] for v in od["vars"]}
        for lhs, de, ast, *_ in od["eqs"]:
            if not de and kinds.get(lhs) == "alg" and _is_constant_expr(ast):
                const_alg.add(lhs)
    from . import expr as E

    def effectively_constant(a):
        return _is_constant_expr(a) or (E.variables(a) and set(E.variables(a)) <= const_alg)
    # (calls of sympy's own functions on numeric literals - sympy writes E*E as exp(2) - are folded to numbers since the
    # fix of F-02c2; what is left are functions sympy does not know and arguments that are constant algebraic variables)
    non_sympy = {"sigmoid", "absv", "maxi", "mini", "round"}
    for ast in _all_asts(case):
        for n in _walk(ast):
            if n[0] == "call" and all(effectively_constant(a) for a in n[2:]):
                if (n[1] in non_sympy - {"sigmoid", "absv", "maxi", "mini"}) or any(E.variables(a) for a in n[2:]):
                    return True
    return False


@predicate("F-02f")
def fortran_case_insensitive_name_clash(case):
    """Fortran backend: Fortran is case-insensitive, so a user variable named e, pi or i (any case) collides with the
    module constants E, PI, I, and two user variables that differ only in case collide with each other"""
    if case.get("cfg", {}).get("backend", "fortran") != "fortran":
        return False
    spec = case.get("spec")
    if not spec:
        return False
    names = [v[0] for od in spec["ops"].values() for v in od["vars"]]
    low = [n.lower() for n in set(names)]
    if len(set(low)) < len(low):
        return True
    return any(n in ("e", "pi", "i") for n in low)


@predicate("F-05e")
def parameter_index_with_vector_result(case):
    """index_range(v, j, k) / index_axis(A, k, 1) whose index is an operator parameter (not a literal), compiled through
    an operator with a vector-valued state: the scalar index parameter gets shape (1,)"""
    return case.get("form") in ("index_range", "index_axis1") and not case.get("literal") and case.get("path") == "codegen"


@predicate("F-05g")
def index_of_index_axis(case):
    """an index helper applied to the result of another index helper - index(index_axis(A, k, 1), j), index(index(A, j), k)
    - through the generated code: KeyError 'A[:,k]' / 'A[1]' (literal indices) or IndexError (parameter indices)"""
    return case.get("form") in ("index_of_axis", "index_nested") and case.get("path") == "codegen"


@predicate("F-07d")
def vectorized_edge_template_with_unequal_value_keys(case):
    """vectorize=True and >=2 edges through one EdgeTemplate whose attribute dictionaries (incl. update_var) name
    different sets of edge-operator variables"""
    if "tv" not in case or not case.get("vectorize"):
        return False
    keys = []
    for i, e in enumerate(case["edges"]):
        if e["tmpl"]:
            ks = set(e["ev"]) | {u["key"] for u in case.get("updates", []) if u["e"] == i and u["key"] != "weight"}
            keys.append(frozenset(ks))
    return len(set(keys)) > 1


def _templated(case):
    return [e for e in case.get("spec", {}).get("edges", []) if e.get("et")]


@predicate("F-04e")
def templated_and_plain_edge_between_one_pair(case):
    """vectorize=True: an edge through an EdgeTemplate and a plain edge between the same two variables"""
    if not case.get("cfg", {}).get("vectorize"):
        return False
    t = {(e.get("scope") or "", e["s"], e["t"]) for e in _templated(case)}
    return any((e.get("scope") or "", e["s"], e["t"]) in t for e in case["spec"]["edges"] if not e.get("et"))


@predicate("F-04f")
def fan_in_through_edge_template(case):
    """vectorize=True: two or more edges through one EdgeTemplate end in the same target variable of one node"""
    if not case.get("cfg", {}).get("vectorize"):
        return False
    seen = {}
    for e in _templated(case):
        k = (e["et"], e.get("scope") or "", e["t"])
        seen[k] = seen.get(k, 0) + 1
    return any(v > 1 for v in seen.values())


@predicate("F-04g")
def edge_template_groups_of_single_edges(case):
    """vectorize=True: one EdgeTemplate used by two or more edge groups (different source/target variable pairs) of which
    one consists of a single edge"""
    if not case.get("cfg", {}).get("vectorize"):
        return False
    groups = {}
    for e in _templated(case):
        k = (e["et"], e["s"].rsplit("/", 2)[1:], e["t"].rsplit("/", 2)[1:])
        groups.setdefault((e["et"], str(k)), []).append(e)
    by_t = {}
    for (et, k), v in groups.items():
        by_t.setdefault(et, []).append(len(v))
    return any(len(v) >= 2 and min(v) == 1 for v in by_t.values())


@predicate("F-18c")
def condition_only_parameter_declared_before_a_field_parameter(case):
    """auto-07p export with parameters that only the integral conditions use (the check itself relaxes the order
    clause for them while the finding is active; nothing is excluded)"""
    return False


@predicate("F-16k")
def connectivity_delay_under_adaptive_solver(case):
    """a Connectivity with a delay and no spread under an adaptive solver: the source is passed through a first-order
    low-pass of rate 1/d (documented in _add_matrix_delay as the minimum ODE order) instead of being read at t - d as on
    scalar edges"""
    ps = _pspec(case)
    if not ps or case.get("cfg", {}).get("solver") not in ("scipy", "diffrax"):
        return False
    if case.get("cfg", {}).get("dde_approx"):
        return False
    return any(c.get("d") is not None and c.get("sp") is None for c in ps["conns"])
