"""Arm = one generator + oracle pair of a property.  A property module exposes ARMS (list of Arm)
and PROPERTY (dict with id, rule, assumptions, level_text ...)."""
from .common import CaseResult


class Arm:
    name = "arm"
    #: total number of generated cases per tier (split over shards)
    budget = {"quick": 100, "thorough": 1000}
    #: minimum cases per shard (controls the number of worker processes)
    min_per_shard = 20
    max_shards = 16
    #: 'strategy' (hypothesis @given over JSON cases) or 'stateful' (RuleBasedStateMachine)
    kind = "strategy"
    #: stateful only
    steps = {"quick": 30, "thorough": 50}
    #: labels that must be seen at least once in the thorough tier (else exit 2: harness insufficient)
    required_labels = ()
    exhaustive = False

    def strategy(self, ctx):
        raise NotImplementedError

    def machine(self, ctx, sink):
        """Return a RuleBasedStateMachine subclass; it must call sink(case, result) once per history."""
        raise NotImplementedError

    def run(self, case, ctx) -> CaseResult:
        """Run one case (pure function of the JSON case and the code under test)."""
        raise NotImplementedError

    def sample(self, case):
        """Compact human-readable form of a case for the evidence file."""
        return case

    def enumerate(self, ctx):
        """For exhaustive arms: yield all cases."""
        raise NotImplementedError


class Ctx:
    def __init__(self, tier="quick", seed=1, active_findings=(), extra=None):
        self.tier = tier
        self.seed = seed
        self.active_findings = set(active_findings)
        self.extra = extra or {}

    def to_json(self):
        return {"tier": self.tier, "seed": self.seed, "active_findings": sorted(self.active_findings),
                "extra": self.extra}

    @classmethod
    def from_json(cls, d):
        return cls(d.get("tier", "quick"), d.get("seed", 1), d.get("active_findings", ()), d.get("extra"))


class _StepTimeout(BaseException):
    pass


def guarded_step(it, op, limit=60):
    """one operation under a wall-clock guard: a runaway operation makes the history inconclusive (rejected)"""
    import signal

    def handler(signum, frame):
        raise _StepTimeout()
    old = signal.signal(signal.SIGALRM, handler)
    signal.setitimer(signal.ITIMER_REAL, limit)
    try:
        it.step(op)
    except _StepTimeout:
        it.res.rejected = f"step-timeout(inconclusive): {op.get('op')}"
        it.res.violations.clear()
        it.dead = True
    finally:
        signal.setitimer(signal.ITIMER_REAL, 0)
        signal.signal(signal.SIGALRM, old)


def ops_machine(init_strategy, op_strategy, interp_factory, sink, budget_hook, max_ops=10):
    """Generic RuleBasedStateMachine: an @initialize rule draws the initial case (JSON), a single rule draws the next
    operation (JSON) and hands it to the interpreter, teardown reports (case, result).  The operation list is the
    replay unit: interp_factory(init).step(op) for every op, then .finish()."""
    from hypothesis.stateful import RuleBasedStateMachine, initialize, precondition, rule

    class Machine(RuleBasedStateMachine):
        def __init__(self):
            super().__init__()
            self.init = None
            self.ops = []
            self.it = None
            self.skip = budget_hook()

        @initialize(init=init_strategy)
        def start(self, init):
            if self.skip:
                return
            self.init = init
            self.it = interp_factory(init)

        @rule(data=__import__("hypothesis").strategies.data())
        def step(self, data):
            if self.it is None or len(self.ops) >= max_ops or self.it.dead:
                return  # (no precondition: Hypothesis requires that some rule is always available)
            op = data.draw(op_strategy(self.it))
            self.ops.append(op)
            guarded_step(self.it, op)

        def teardown(self):
            if self.skip or self.it is None:
                return
            res = self.it.finish()
            sink({"init": self.init, "ops": self.ops}, res)

    return Machine
