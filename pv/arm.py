"""Arm = one generator + oracle pair of a property.  A property module exposes ARMS (list of Arm)
and PROPERTY (dict with id, rule, assumptions, level_text ...)."""
from .common import CaseResult


class Arm:
    name = "arm"
    #: total number of generated cases per tier (split over shards)
    budget = {"quick": 100, "thorough": 1000}
    #: minimum cases per shard (controls the number of worker processes)
    min_per_shard = 20
    max_shards = 16
    #: 'strategy' (hypothesis @given over JSON cases) or 'stateful' (RuleBasedStateMachine)
    kind = "strategy"
    #: stateful only
    steps = {"quick": 30, "thorough": 50}
    #: labels that must be seen at least once in the thorough tier (else exit 2: harness insufficient)
    required_labels = ()
    exhaustive = False

    def strategy(self, ctx):
        raise NotImplementedError

    def machine(self, ctx, sink):
        """Return a RuleBasedStateMachine subclass; it must call sink(case, result) once per history."""
        raise NotImplementedError

    def run(self, case, ctx) -> CaseResult:
        """Run one case (pure function of the JSON case and the code under test)."""
        raise NotImplementedError

    def sample(self, case):
        """Compact human-readable form of a case for the evidence file."""
        return case

    def enumerate(self, ctx):
        """For exhaustive arms: yield all cases."""
        raise NotImplementedError


class Ctx:
    def __init__(self, tier="quick", seed=1, active_findings=(), extra=None):
        self.tier = tier
        self.seed = seed
        self.active_findings = set(active_findings)
        self.extra = extra or {}

    def to_json(self):
        return {"tier": self.tier, "seed": self.seed, "active_findings": sorted(self.active_findings),
                "extra": self.extra}

    @classmethod
    def from_json(cls, d):
        return cls(d.get("tier", "quick"), d.get("seed", 1), d.get("active_findings", ()), d.get("extra"))
