"""Expression AST for the PyRates equation language: generation, rendering, evaluation.

AST (JSON-able nested lists):
  ["num", 1.5]            numeric literal (non-negative; negatives are ["neg", ["num", ..]])
  ["const", "pi"|"E"]
  ["var", name]
  ["neg", a]
  ["bin", op, a, b]       op in + - * /
  ["pow", a, n]           n: non-negative numeric literal value (int or half-integer) ; ["pow", a, ["neg", n]] not used
  ["call", fname, a, ...]
  ["past", varname, delay]   delay: float literal or ["var", pname]
  ["idx", kind, vecvar, ...ints]   index helpers on vector/matrix constants (C05 only)

Evaluation returns (value, magnitude) where magnitude is the same expression evaluated with |.| at additive nodes:
an a-priori bound for the rounding error of any re-association is  ~ eps * depth * magnitude.
"""
import math

import numpy as np

UNARY_FUNCS = {
    "sin": np.sin, "cos": np.cos, "tan": np.tan, "sinh": np.sinh, "cosh": np.cosh, "tanh": np.tanh,
    "arcsin": np.arcsin, "arccos": np.arccos, "arctan": np.arctan, "exp": np.exp, "log": np.log,
    "sigmoid": lambda x: 1.0 / (1.0 + np.exp(-x)), "absv": np.abs, "round": np.round, "sign": np.sign,
    "sqrt": np.sqrt,
}
BINARY_FUNCS = {"maxi": np.maximum, "mini": np.minimum}
CONSTS = {"pi": math.pi, "E": math.e}

# derivative magnitude bounds are not needed; magnitude of f(x) is |f(x)| plus a Lipschitz-ish term
_LIP = {"sin": 1, "cos": 1, "tanh": 1, "arctan": 1, "sigmoid": 0.25, "absv": 1, "sign": 0, "round": 0}


class EvalError(Exception):
    pass


def evaluate(ast, env, hist=None, t=None):
    """env: name -> float or ndarray.  Returns value only."""
    return _ev(ast, env, hist, t)[0]


def evaluate_mag(ast, env, hist=None, t=None):
    return _ev(ast, env, hist, t)


def _ev(a, env, hist, t):
    k = a[0]
    if k == "num":
        v = np.float64(a[1])
        return v, abs(v)
    if k == "const":
        v = np.float64(CONSTS[a[1]])
        return v, abs(v)
    if k == "var":
        try:
            v = env[a[1]]
        except KeyError:
            raise EvalError(f"unbound variable {a[1]}")
        if callable(v):
            v = v()
        v = np.asarray(v, dtype=float) if not np.isscalar(v) else np.float64(v)
        return v, np.abs(v)
    if k == "neg":
        v, m = _ev(a[1], env, hist, t)
        return -v, m
    if k == "bin":
        op = a[1]
        x, mx = _ev(a[2], env, hist, t)
        y, my = _ev(a[3], env, hist, t)
        with np.errstate(all="ignore"):
            if op == "+":
                return x + y, mx + my
            if op == "-":
                return x - y, mx + my
            if op == "*":
                return x * y, mx * my
            if op == "/":
                # relative error of the quotient ~ rel(x) + rel(y)
                q = x / y
                return q, (mx / np.abs(y)) * (my / np.abs(y))
        raise EvalError(op)
    if k == "pow":
        x, mx = _ev(a[1], env, hist, t)
        n = a[2]
        with np.errstate(all="ignore"):
            v = x ** n
            rel = mx / np.maximum(np.abs(x), 1e-300)
            return v, np.abs(v) * np.maximum(1.0, abs(n) * rel)
    if k == "call":
        f = a[1]
        if f in UNARY_FUNCS:
            x, mx = _ev(a[2], env, hist, t)
            with np.errstate(all="ignore"):
                v = UNARY_FUNCS[f](x)
                # conservative: |f(x)| + |f'(x)|-ish * (mx) via numerical sensitivity
                h = 1e-6 * (1.0 + np.abs(x))
                d = np.abs(UNARY_FUNCS[f](x + h) - UNARY_FUNCS[f](x - h)) / (2 * h)
                d = np.where(np.isfinite(d), d, 0.0)
                return v, np.abs(v) + d * mx
        if f in BINARY_FUNCS:
            x, mx = _ev(a[2], env, hist, t)
            y, my = _ev(a[3], env, hist, t)
            return BINARY_FUNCS[f](x, y), np.maximum(mx, my)
        if f == "vsum":
            x, mx = _ev(a[2], env, hist, t)
            return float(np.sum(x)), float(np.sum(mx))
        if f == "mean":
            x, mx = _ev(a[2], env, hist, t)
            return float(np.mean(x)), float(np.mean(mx))
        raise EvalError(f"unknown function {f}")
    if k == "past":
        if hist is None:
            raise EvalError("past() without history")
        d = a[2]
        dv = float(d) if not isinstance(d, list) else float(_ev(d, env, hist, t)[0])
        v = hist(a[1], dv)
        return v, np.abs(v)
    if k == "t":
        return float(t), abs(float(t))
    if k == "idx":
        kind = a[1]
        x = np.asarray(env[a[2]], dtype=float)
        if kind == "index":
            v = x[a[3]]
        elif kind == "index_range":
            v = x[a[3]:a[4]]
        elif kind == "index_axis":
            v = x[a[3]] if a[4] == 0 else x[:, a[3]]
        elif kind == "index_2d":
            v = x[a[3], a[4]]
        else:
            raise EvalError(kind)
        return v, np.abs(v)
    raise EvalError(f"bad node {k}")


# ------------------------------------------------------------------------------------------------------
# rendering

PREC = {"+": 1, "-": 1, "*": 2, "/": 2}
P_NEG, P_POW, P_ATOM = 3, 4, 5


def _prec(a):
    k = a[0]
    if k == "bin":
        return PREC[a[1]]
    if k == "neg":
        return P_NEG
    if k == "pow":
        return P_POW
    return P_ATOM


def fmt_num(v, style=0):
    v = float(v)
    if v == int(v) and abs(v) < 1e6:
        iv = int(v)
        if style % 3 == 0:
            return str(iv)
        if style % 3 == 1:
            return f"{iv}.0"
        return f"{iv}."
    s = repr(v)
    if style % 3 == 2 and s.startswith("0."):
        return s[1:]
    return s


class Style:
    """Syntactic freedom used by C05: spacing, ^ vs **, redundant parentheses, number format."""

    def __init__(self, seed=0, space=0, caret=False, redundant=0, numfmt=0, neg_parens=True):
        self.space = space          # 0 none, 1 around binary ops, 2 irregular
        self.caret = caret
        self.redundant = redundant  # 0 minimal, 1 parenthesise every binary sub-expression, 2 every other
        self.numfmt = numfmt
        self.neg_parens = neg_parens
        self._k = seed

    def tick(self):
        self._k = (self._k * 1103515245 + 12345) % (2 ** 31)
        return self._k


DEFAULT_STYLE = Style()


def render(a, st=DEFAULT_STYLE):
    k = a[0]
    if k == "num":
        return fmt_num(a[1], st.numfmt)
    if k == "const":
        return a[1]
    if k == "var":
        return a[1]
    if k == "t":
        return "t"
    if k == "neg":
        inner = render(a[1], st)
        if _prec(a[1]) < P_NEG or a[1][0] == "neg":
            inner = f"({inner})"
        return f"-{inner}"
    if k == "bin":
        op = a[1]
        p = PREC[op]
        l, r = render(a[2], st), render(a[3], st)
        lp, rp = _prec(a[2]), _prec(a[3])
        need_l = lp < p or (a[2][0] == "neg" and st.neg_parens and False)
        need_r = rp < p or (rp == p and op in "-/") or (rp == p and op == "*" and a[3][1] == "/") \
            or (a[3][0] == "neg")
        if st.redundant == 1:
            need_l = need_l or lp < P_ATOM
            need_r = need_r or rp < P_ATOM
        elif st.redundant == 2:
            if st.tick() % 2:
                need_l = need_l or lp < P_ATOM
            if st.tick() % 2:
                need_r = need_r or rp < P_ATOM
        if need_l:
            l = f"({l})"
        if need_r:
            r = f"({r})"
        if st.space == 0:
            sp1 = sp2 = ""
        elif st.space == 1:
            sp1 = sp2 = " "
        else:
            sp1 = " " * (st.tick() % 3)
            sp2 = " " * (st.tick() % 3)
        return f"{l}{sp1}{op}{sp2}{r}"
    if k == "pow":
        b = render(a[1], st)
        if _prec(a[1]) < P_ATOM:
            b = f"({b})"
        n = a[2]
        e = fmt_num(abs(n), st.numfmt)
        if n < 0:
            e = f"(-{e})"
        return f"{b}{'^' if st.caret else '**'}{e}"
    if k == "call":
        sep = ", " if st.space else ","
        return f"{a[1]}({sep.join(render(x, st) for x in a[2:])})"
    if k == "past":
        d = a[2]
        ds = render(d, st) if isinstance(d, list) else fmt_num(d)
        if len(a) > 3 and a[3] == "tform":
            return f"{a[1]}(t-{ds})"
        if len(a) > 3 and a[3] == "tform_sci" and not isinstance(d, list):
            # the delay as a literal in scientific notation with a negative exponent: x(t-2.5e-1)
            m, e = f"{float(d):.6e}".split("e")
            return f"{a[1]}(t-{m.rstrip('0').rstrip('.')}e{int(e)})" if int(e) < 0 else f"{a[1]}(t-{ds})"
        return f"past({a[1]},{ds})" if not st.space else f"past({a[1]}, {ds})"
    if k == "idx":
        return f"{a[1]}({a[2]}" + "".join(f",{i}" for i in a[3:]) + ")"
    raise ValueError(k)


def variables(a, out=None):
    out = set() if out is None else out
    k = a[0]
    if k == "var":
        out.add(a[1])
    elif k in ("neg",):
        variables(a[1], out)
    elif k == "bin":
        variables(a[2], out)
        variables(a[3], out)
    elif k == "pow":
        variables(a[1], out)
    elif k == "call":
        for x in a[2:]:
            variables(x, out)
    elif k == "past":
        out.add(a[1])
        if isinstance(a[2], list):
            variables(a[2], out)
    elif k == "idx":
        out.add(a[2])
    return out


def past_terms(a, out=None):
    out = [] if out is None else out
    k = a[0]
    if k == "past":
        out.append(a)
    elif k == "neg":
        past_terms(a[1], out)
    elif k == "bin":
        past_terms(a[2], out)
        past_terms(a[3], out)
    elif k == "pow":
        past_terms(a[1], out)
    elif k == "call":
        for x in a[2:]:
            past_terms(x, out)
    return out


def uses_time(a):
    k = a[0]
    if k == "t":
        return True
    if k == "neg" or k == "pow":
        return uses_time(a[1])
    if k == "bin":
        return uses_time(a[2]) or uses_time(a[3])
    if k == "call":
        return any(uses_time(x) for x in a[2:])
    return False


def depth(a):
    k = a[0]
    if k in ("num", "const", "var", "t", "past", "idx"):
        return 1
    if k in ("neg", "pow"):
        return 1 + depth(a[1])
    if k == "bin":
        return 1 + max(depth(a[2]), depth(a[3]))
    if k == "call":
        return 1 + max(depth(x) for x in a[2:])
    return 1


def funcs_used(a, out=None):
    out = set() if out is None else out
    k = a[0]
    if k == "call":
        out.add(a[1])
        for x in a[2:]:
            funcs_used(x, out)
    elif k in ("neg", "pow"):
        funcs_used(a[1], out)
    elif k == "bin":
        funcs_used(a[2], out)
        funcs_used(a[3], out)
    return out


def n_ops(a):
    k = a[0]
    if k in ("neg", "pow"):
        return 1 + n_ops(a[1])
    if k == "bin":
        return 1 + n_ops(a[2]) + n_ops(a[3])
    if k == "call":
        return 1 + sum(n_ops(x) for x in a[2:])
    return 0


# ------------------------------------------------------------------------------------------------------
# generation with interval tracking: every sub-expression carries (lo, hi) under |var| <= R

R_VAR = 2.5
NUMS = [0.5, 2.0, 1.5, 3.0, 0.25, 1.0, 4.0, 0.1, 1.25, 0.75, 10.0, 0.05, 2.5]


def _mul_iv(a, b):
    c = [a[0] * b[0], a[0] * b[1], a[1] * b[0], a[1] * b[1]]
    return (min(c), max(c))


def _contains_var(a):
    k = a[0]
    if k in ("var", "past", "t", "idx"):
        return True
    if k in ("neg", "pow"):
        return _contains_var(a[1])
    if k == "bin":
        return _contains_var(a[2]) or _contains_var(a[3])
    if k == "call":
        return any(_contains_var(x) for x in a[2:])
    return False


def expr_strategy(var_names, max_depth=3, funcs=None, allow_div=True, allow_pow=True, consts=True,
                  var_ranges=None, const_calls=False):
    """Hypothesis strategy for (ast, (lo, hi)).  All generated expressions are finite on |var|<=R_VAR and use
    singular functions (/ log sqrt arcsin arccos) only in globally safe forms."""
    from hypothesis import strategies as st
    funcs = list(funcs) if funcs is not None else ["sin", "cos", "tanh", "sigmoid", "arctan", "exp", "log", "sinh",
                                                    "cosh", "tan", "arcsin", "arccos", "absv"]
    var_names = list(var_names)
    var_ranges = var_ranges or {}

    def leaf():
        opts = []
        if var_names:
            for _ in range(4):
                opts.append(st.sampled_from(var_names).map(
                    lambda v: (["var", v], var_ranges.get(v, (-R_VAR, R_VAR)))))
        opts.append(st.sampled_from(NUMS).map(lambda c: (["num", c], (c, c))))
        if consts:
            opts.append(st.sampled_from(["pi", "E"]).map(lambda c: (["const", c], (CONSTS[c], CONSTS[c]))))
        return st.one_of(opts)

    def extend(children):
        def neg(c):
            a, iv = c
            if a[0] == "neg":
                return c
            return (["neg", a], (-iv[1], -iv[0]))

        def binop(args):
            op, (a, ia), (b, ib) = args
            if op == "+":
                return (["bin", "+", a, b], (ia[0] + ib[0], ia[1] + ib[1]))
            if op == "-":
                return (["bin", "-", a, b], (ia[0] - ib[1], ia[1] - ib[0]))
            iv = _mul_iv(ia, ib)
            if max(abs(iv[0]), abs(iv[1])) > 1e4:
                return (["bin", "+", a, b], (ia[0] + ib[0], ia[1] + ib[1]))
            return (["bin", "*", a, b], iv)

        def div(args):
            c, (a, ia), (b, ib), form = args
            if not const_calls and var_names and form > 0 and not _contains_var(b):
                v0 = var_names[-1]
                r0 = var_ranges.get(v0, (-R_VAR, R_VAR))
                b = ["bin", "+", b, ["var", v0]]
                ib = (ib[0] + r0[0], ib[1] + r0[1])
            # globally safe denominators
            if form == 0:
                den = ["bin", "+", ["num", c], ["bin", "*", b, b]]
                m = max(abs(ib[0]), abs(ib[1])) ** 2
                dv = (c, c + m)
            elif form == 1:
                den = ["bin", "+", ["num", c + 1.0], ["call", "sin", b]]
                dv = (c, c + 2.0)
            else:
                den = ["bin", "+", ["num", c], ["call", "exp", ["call", "tanh", b]]]
                dv = (c + 0.36, c + 2.72)
            hi = max(abs(ia[0]), abs(ia[1])) / dv[0]
            return (["bin", "/", a, den], (-hi, hi))

        def powf(args):
            (a, ia), n = args
            m = max(abs(ia[0]), abs(ia[1]))
            if n in (2, 3):
                if m ** n > 1e4:
                    return (a, ia)
                return (["pow", a, n], ((0.0 if n == 2 else -m ** n), m ** n))
            # half-integer / negative exponents on a positive base
            base = ["bin", "+", ["num", 0.5], ["bin", "*", a, a]]
            bl, bh = 0.5, 0.5 + m * m
            if bh ** abs(n) > 1e4:
                return (a, ia)
            vals = [bl ** n, bh ** n]
            return (["pow", base, n], (min(vals), max(vals)))

        def call(args):
            f, (a, ia) = args
            if not const_calls and var_names and not _contains_var(a):
                # calls on purely numeric arguments are a separate (known) defect family: keep them out unless asked
                v0 = var_names[0]
                r0 = var_ranges.get(v0, (-R_VAR, R_VAR))
                a = ["bin", "+", a, ["var", v0]]
                ia = (ia[0] + r0[0], ia[1] + r0[1])
            m = max(abs(ia[0]), abs(ia[1]))
            if f in ("sin", "cos"):
                return (["call", f, a], (-1.0, 1.0))
            if f == "tanh":
                return (["call", f, a], (-1.0, 1.0))
            if f == "sigmoid":
                if m > 30:
                    a = ["call", "tanh", a]
                return (["call", f, a], (0.0, 1.0))
            if f == "arctan":
                return (["call", f, a], (-1.5708, 1.5708))
            if f == "absv":
                return (["call", f, a], (0.0, m))
            if f == "exp":
                if ia[1] > 5:
                    a = ["call", "tanh", a]
                    return (["call", f, a], (0.36, 2.72))
                return (["call", f, a], (math.exp(max(ia[0], -700)), math.exp(ia[1])))
            if f in ("sinh", "cosh"):
                if m > 5:
                    a = ["call", "tanh", a]
                    m = 1.0
                hi = math.cosh(m)
                return (["call", f, a], ((-hi, hi) if f == "sinh" else (1.0, hi)))
            if f == "tan":
                # keep away from the poles: tan(tanh(.)) in (-1.56, 1.56)
                return (["call", "tan", ["call", "tanh", a]], (-1.5575, 1.5575))
            if f == "log":
                arg = ["bin", "+", ["num", 0.5], ["bin", "*", a, a]]
                return (["call", "log", arg], (math.log(0.5), math.log(0.5 + m * m)))
            if f == "sqrt":
                arg = ["bin", "+", ["num", 0.5], ["bin", "*", a, a]]
                return (["call", "sqrt", arg], (0.7, math.sqrt(0.5 + m * m)))
            if f in ("arcsin", "arccos"):
                arg = ["bin", "*", ["num", 0.9], ["call", "tanh", a]]
                return (["call", f, arg], (-1.2, 1.2) if f == "arcsin" else (0.45, 2.7))
            raise ValueError(f)

        opts = [
            children.map(neg),
            st.tuples(st.sampled_from(["+", "-", "*", "+", "*"]), children, children).map(binop),
            st.tuples(st.sampled_from(["+", "-", "*"]), children, children).map(binop),
        ]
        if funcs:
            opts.append(st.tuples(st.sampled_from(funcs), children).map(call))
        if allow_div:
            opts.append(st.tuples(st.sampled_from([0.5, 1.0, 2.0]), children, children,
                                  st.integers(0, 2)).map(div))
        if allow_pow:
            opts.append(st.tuples(children, st.sampled_from([2, 3, 2, 0.5, 1.5, -1, -0.5])).map(powf))
        return st.one_of(opts)

    return st.recursive(leaf(), extend, max_leaves=2 ** max_depth)


# ------------------------------------------------------------------------------------------------------

def selftest():
    """Renderer round-trip against Python's own parser/evaluator on a fixed pseudo-random family."""
    import random
    rng = random.Random(12345)
    names = ["a", "b", "rr", "x_v1"]

    def rnd(d):
        if d == 0 or rng.random() < 0.2:
            c = rng.random()
            if c < 0.5:
                return ["var", rng.choice(names)]
            if c < 0.9:
                return ["num", rng.choice(NUMS)]
            return ["const", rng.choice(["pi", "E"])]
        c = rng.random()
        if c < 0.15:
            return ["neg", rnd(d - 1)]
        if c < 0.7:
            return ["bin", rng.choice("+-*/"), rnd(d - 1), rnd(d - 1)]
        if c < 0.8:
            return ["pow", rnd(d - 1), rng.choice([2, 3, -1, 0.5, 2.0])]
        return ["call", rng.choice(["sin", "cos", "tanh", "exp"]), rnd(d - 1)]

    pyenv = {"sin": math.sin, "cos": math.cos, "tanh": math.tanh, "exp": math.exp, "pi": math.pi, "E": math.e}
    n_ok = 0
    for i in range(3000):
        ast = rnd(4)
        env = {n: rng.uniform(0.3, 1.7) for n in names}
        try:
            with np.errstate(all="ignore"):
                ref = evaluate(ast, env)
        except Exception:
            continue
        if not np.isfinite(ref) or abs(ref) > 1e8:
            continue
        for st in (Style(), Style(i, 1, False, 1, 1), Style(i, 2, False, 2, 2), Style(i, 0, False, 0, 2)):
            s = render(ast, st)
            try:
                val = eval(s, dict(pyenv), dict(env))
            except (ZeroDivisionError, OverflowError, ValueError, TypeError):
                continue
            if isinstance(val, complex):
                continue
            assert abs(val - ref) <= 1e-9 * (1 + abs(ref)), (s, val, ref, ast)
            n_ok += 1
    assert n_ok > 3000, n_ok
    return n_ok


if __name__ == "__main__":
    print("expr selftest:", selftest())
