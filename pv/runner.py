"""CLI: ./check <ID> [--tier quick|thorough] [--replay FILE]

exit 0: property held on everything explored (KNOWN-FINDING lines allowed)
exit 1: at least one line 'VIOLATION property=<ID> replay=<path>'
exit 2: harness error (never prints VIOLATION)
"""
import argparse
import importlib
import json
import math
import os
import subprocess
import sys
import tempfile
import time
from collections import Counter

from .arm import Ctx
from .common import VERIF_ROOT, canon, case_hash, jsonable

NPROC = int(os.environ.get("PV_NPROC", "16"))
MAX_BUCKETS = 6


def log(*a):
    print(*a, file=sys.stderr, flush=True)


def load_prop(pid):
    return importlib.import_module("pv.props." + pid.lower())


def load_findings():
    path = os.path.join(VERIF_ROOT, "known_findings.json")
    if not os.path.exists(path):
        return {"findings": [], "fixed": []}
    with open(path) as fh:
        return json.load(fh)


class Pool:
    """Run worker specs as subprocesses, at most NPROC at a time."""

    def __init__(self, tmpdir):
        self.tmpdir = tmpdir
        self.k = 0

    def run_all(self, specs, timeout=None):
        pending = list(enumerate(specs))
        running = {}
        results = [None] * len(specs)
        t0 = time.time()
        while pending or running:
            while pending and len(running) < NPROC:
                i, spec = pending.pop(0)
                self.k += 1
                sp = os.path.join(self.tmpdir, f"spec{self.k}.json")
                spec = dict(spec)
                spec["out"] = os.path.join(self.tmpdir, f"out{self.k}.json")
                with open(sp, "w") as fh:
                    json.dump(spec, fh)
                lf = open(os.path.join(self.tmpdir, f"log{self.k}.txt"), "w")
                p = subprocess.Popen([sys.executable, "-m", "pv.worker", sp], stdout=lf, stderr=subprocess.STDOUT,
                                     cwd=VERIF_ROOT)
                running[i] = (p, spec, lf, time.time())
            time.sleep(0.05)
            for i in list(running):
                p, spec, lf, ts = running[i]
                rc = p.poll()
                to = spec.get("timeout_s", timeout)
                if rc is None and to and time.time() - ts > to:
                    p.kill()
                    p.wait()
                    rc = -9
                if rc is not None:
                    lf.close()
                    del running[i]
                    if os.path.exists(spec["out"]):
                        with open(spec["out"]) as fh:
                            results[i] = json.load(fh)
                    else:
                        tail = ""
                        try:
                            with open(lf.name) as fh:
                                tail = fh.read()[-3000:]
                        except Exception:
                            pass
                        results[i] = {"harness_error": f"worker died rc={rc} (timeout={rc == -9})\n{tail}",
                                      "timed_out": rc == -9}
        return results


def shard_plan(arm, tier):
    n = int(arm.budget[tier])
    scale = float(os.environ.get("PV_BUDGET_SCALE", "1"))
    n = max(1, int(n * scale))
    nsh = max(1, min(arm.max_shards, NPROC, n // max(1, arm.min_per_shard)))
    per = int(math.ceil(n / nsh))
    return nsh, per


def replay_one(pid, path):
    """In-process replay of one file (used by --replay; always in a fresh interpreter)."""
    mod = load_prop(pid)
    with open(path) as fh:
        doc = json.load(fh)
    arm = {a.name: a for a in mod.ARMS}[doc["arm"]]
    ctx = Ctx(tier="quick", seed=0, active_findings=())
    cwd0 = os.getcwd()
    scratch = tempfile.mkdtemp(prefix="pv_")
    try:
        os.chdir(scratch)
        sys.path.insert(0, scratch)
        res = arm.run(doc["case"], ctx)
    finally:
        os.chdir(cwd0)
        import shutil
        shutil.rmtree(scratch, ignore_errors=True)
    return doc, res


def cmd_replay(pid, path):
    path = os.path.abspath(path)
    try:
        doc, res = replay_one(pid, path)
    except Exception as e:
        import traceback
        traceback.print_exc()
        print(f"HARNESS-ERROR property={pid} {type(e).__name__}: {e}")
        return 2
    if res.violations:
        for v in res.violations:
            print(f"  bucket={v['bucket']} :: {v['msg']}")
        print(f"VIOLATION property={pid} replay={path}")
        return 1
    print(f"OK property={pid} replay={path} rejected={res.rejected} nontrivial={res.nontrivial}")
    return 0


def replay_subprocess(pid, path, timeout=600):
    """Fresh-interpreter confirmation. Returns (rc, stdout)."""
    p = subprocess.run([sys.executable, "-m", "pv.runner", pid, "--replay", path], cwd=VERIF_ROOT,
                       capture_output=True, text=True, timeout=timeout)
    return p.returncode, p.stdout + p.stderr[-2000:]


def main(argv=None):
    ap = argparse.ArgumentParser()
    ap.add_argument("prop")
    ap.add_argument("--tier", default=os.environ.get("VERIF_TIER", "quick"), choices=["quick", "thorough"])
    ap.add_argument("--replay")
    ap.add_argument("--arms", default=None, help="comma separated subset of arms (development only)")
    ap.add_argument("--no-evidence", action="store_true")
    args = ap.parse_args(argv)
    pid = args.prop.upper()
    if pid == "SELFTEST":
        from . import selftest
        return selftest.main()
    if args.replay:
        return cmd_replay(pid, args.replay)

    seed = int(os.environ.get("VERIF_SEED", "1") or 1)
    t_start = time.time()
    mod = load_prop(pid)
    PROP = mod.PROPERTY
    arms = list(mod.ARMS)
    if args.arms:
        keep = set(args.arms.split(","))
        arms = [a for a in arms if a.name in keep]
    tier = args.tier
    exit_code = 0
    harness_errors = []
    violations_out = []
    known_seen = []

    with tempfile.TemporaryDirectory(prefix="pvrun_") as tmpdir:
        pool = Pool(tmpdir)

        # ---- 1. known findings: probe each listed finding of this property -------------------------
        kf = load_findings()
        my_findings = [f for f in kf.get("findings", []) if pid in f.get("properties", [f.get("property")])]
        active = []
        probe_specs = []
        for f in my_findings:
            # a finding is probed with the reproducer committed for this property, or - when its root cause was
            # demonstrated under another property and merely has to be kept out of this property's generators - with
            # its primary reproducer, run by the check it belongs to
            reps = f.get("replays") or {}
            rp = reps.get(pid) or (next(iter(reps.values())) if reps else f["replay"])
            rp = os.path.join(VERIF_ROOT, rp)
            with open(rp) as fh:
                doc = json.load(fh)
            probe_specs.append({"prop": doc.get("property", pid), "arm": doc["arm"], "mode": "replay",
                                "cases": [doc["case"]], "ctx": Ctx(tier, seed).to_json(), "timeout_s": 900})
        probe_res = pool.run_all(probe_specs) if probe_specs else []
        for f, r in zip(my_findings, probe_res):
            if r.get("harness_error"):
                harness_errors.append(f"probe of {f['id']}: {r['harness_error'][-800:]}")
                continue
            if r["violations"]:
                active.append(f["id"])
                known_seen.append(f["id"])
                print(f"KNOWN-FINDING: property={pid} {f['id']}: {f['what']}")
            else:
                log(f"[{pid}] listed finding {f['id']} no longer reproduces: its shape is searched again")
        ctx = Ctx(tier, seed, active)

        # ---- 2. regression tier: committed replays ------------------------------------------------
        rdir = os.path.join(VERIF_ROOT, "replays", pid)
        reg_files = []
        finding_replays = set()
        for f in kf.get("findings", []):
            for rp in (f.get("replays", {}) or {}).values():
                finding_replays.add(os.path.abspath(os.path.join(VERIF_ROOT, rp)))
            if f.get("replay"):
                finding_replays.add(os.path.abspath(os.path.join(VERIF_ROOT, f["replay"])))
        if os.path.isdir(rdir):
            for fn in sorted(os.listdir(rdir)):
                p = os.path.abspath(os.path.join(rdir, fn))
                if fn.endswith(".json") and p not in finding_replays:
                    reg_files.append(p)
        reg_specs = []
        for p in reg_files:
            with open(p) as fh:
                doc = json.load(fh)
            reg_specs.append({"prop": pid, "arm": doc["arm"], "mode": "replay", "cases": [doc["case"]],
                              "ctx": Ctx(tier, seed).to_json(), "timeout_s": 900})
        reg_res = pool.run_all(reg_specs) if reg_specs else []
        n_reg_fail = 0
        for p, r in zip(reg_files, reg_res):
            if r.get("harness_error"):
                harness_errors.append(f"regression replay {p}: {r['harness_error'][-800:]}")
            elif r["violations"]:
                n_reg_fail += 1
                violations_out.append((p, r["violations"][0]["bucket"], r["violations"][0]["msg"]))

        # ---- 3. collect pass ----------------------------------------------------------------------
        specs = []
        meta = []
        wall_budget = float(os.environ.get("PV_WALL_S", "0") or 0) or None
        for ai, arm in enumerate(arms):
            if arm.exhaustive:
                nsh = min(NPROC, arm.max_shards)
                for k in range(nsh):
                    specs.append({"prop": pid, "arm": arm.name, "mode": "enumerate", "shard": k, "nshards": nsh,
                                  "ctx": ctx.to_json()})
                    meta.append((arm, k))
                continue
            nsh, per = shard_plan(arm, tier)
            if os.environ.get("PV_ONLY_FUZZ") and getattr(arm, "fuzz", None):
                nsh = 0      # (experiment knob: judge the coverage-guided shards on their own)
            for k in range(nsh):
                specs.append({"prop": pid, "arm": arm.name, "mode": "collect", "n": per,
                              "seed": seed * 1009 + 101 * ai + k, "ctx": ctx.to_json(),
                              "deadline_s": wall_budget, "timeout_s": 1500 if tier == "quick" else 6 * 3600})
                meta.append((arm, k))
        # coverage-guided shards (atheris / libFuzzer driving the same strategy and oracle) for arms that ask for them
        for ai, arm in enumerate(arms):
            fz = getattr(arm, "fuzz", None)
            if not fz or not fz.get(tier):
                continue
            nsh, per = fz[tier]
            for k in range(nsh):
                specs.append({"prop": pid, "arm": arm.name, "mode": "fuzz", "n": per,
                              "seed": seed * 7919 + 131 * ai + k + 1, "ctx": ctx.to_json(),
                              "timeout_s": 1500 if tier == "quick" else 6 * 3600})
                meta.append((arm, 1000 + k))
        results = pool.run_all(specs)

        agg = {}
        for (arm, k), spec, r in zip(meta, specs, results):
            a = agg.setdefault(arm.name, {"evaluations": 0, "nontrivial": set(), "labels": Counter(),
                                          "rejected": Counter(), "excluded": Counter(), "samples": [],
                                          "violations": [], "skipped_budget": 0, "shards": 0, "info": Counter()})
            if r.get("harness_error"):
                he = r['harness_error']
                exc_line = he.split("EXCEPTION: ", 1)[1] if "EXCEPTION: " in he else ""
                harness_errors.append(f"arm {arm.name} shard {k}: {he[:600]} ... {he[-900:]} {exc_line}")
                continue
            a["shards"] += 1
            a["evaluations"] += r["evaluations"]
            a["nontrivial"].update(r["nontrivial"])
            a["labels"].update(r["labels"])
            a["rejected"].update(r["rejected"])
            a["excluded"].update(r["excluded"])
            a["info"].update(r.get("info", {}))
            a["skipped_budget"] += r.get("skipped_budget", 0)
            if len(a["samples"]) < 5:
                a["samples"].extend(r["samples"][: 5 - len(a["samples"])])
            for v in r["violations"]:
                v = dict(v)
                v["seed"] = spec.get("seed")
                v["n"] = spec.get("n")
                a["violations"].append(v)

        # ---- 4. bucket -> shrink -> confirm ---------------------------------------------------------
        buckets = {}
        for arm in arms:
            for v in agg.get(arm.name, {}).get("violations", []):
                key = (arm.name, v["bucket"])
                if key not in buckets or v["size"] < buckets[key]["size"]:
                    buckets[key] = v
        bucket_items = sorted(buckets.items(), key=lambda kv: kv[1]["size"])[:MAX_BUCKETS]
        shrink_specs = []
        for (aname, b), v in bucket_items:
            arm = {a.name: a for a in arms}[aname]
            if arm.exhaustive or v.get("seed") is None or os.environ.get("PV_NO_SHRINK"):
                shrink_specs.append(None)
                continue
            if isinstance(v["case"], dict) and "spec" in v["case"]:
                # model specs: fast greedy structural reducer (pv/reduce.py)
                shrink_specs.append({"prop": pid, "arm": aname, "mode": "reduce", "case": v["case"],
                                     "target_bucket": b, "ctx": ctx.to_json(), "timeout_s": 300})
            else:
                shrink_specs.append({"prop": pid, "arm": aname, "mode": "shrink", "n": v["n"], "seed": v["seed"],
                                     "target_bucket": b, "ctx": ctx.to_json(),
                                     "timeout_s": 150 if tier == "quick" else 420})
        todo = [s for s in shrink_specs if s is not None]
        shr_res = pool.run_all(todo) if todo else []
        it = iter(shr_res)
        found_dir = os.path.join(VERIF_ROOT, "replays", "found")
        unreproducible = []
        for ((aname, b), v), s in zip(bucket_items, shrink_specs):
            case = v["case"]
            shrunk = False
            if s is not None:
                r = next(it)
                if not r.get("harness_error") and r.get("shrunk_case") is not None:
                    if len(canon(r["shrunk_case"])) <= len(canon(case)):
                        case = r["shrunk_case"]
                        shrunk = True
            os.makedirs(found_dir, exist_ok=True)
            path = os.path.join(found_dir, f"{pid}-{aname}-{case_hash(case)}.json")
            with open(path, "w") as fh:
                json.dump({"property": pid, "arm": aname, "bucket": b, "msg": v["msg"], "shrunk": shrunk,
                           "case": jsonable(case)}, fh, indent=1, sort_keys=True)
            rc, outp = replay_subprocess(pid, path)
            if rc == 1:
                violations_out.append((path, b, v["msg"]))
            elif rc == 0 and shrunk:
                # shrunk version does not reproduce from JSON: fall back to the original
                with open(path, "w") as fh:
                    json.dump({"property": pid, "arm": aname, "bucket": b, "msg": v["msg"], "shrunk": False,
                               "case": jsonable(v["case"])}, fh, indent=1, sort_keys=True)
                rc2, outp2 = replay_subprocess(pid, path)
                if rc2 == 1:
                    violations_out.append((path, b, v["msg"]))
                elif rc2 == 0:
                    unreproducible.append((path, b, outp2[-500:]))
                else:
                    harness_errors.append(f"replay of {path} ended with exit {rc2}: {outp2[-300:]}")
            elif rc == 0:
                # a second attempt tells a failure that depends on something outside the case (machine load, a compiler
                # that was killed) from one that the case produces some of the time
                rc2, outp2 = replay_subprocess(pid, path)
                if rc2 == 1:
                    violations_out.append((path, b, v["msg"]))
                else:
                    unreproducible.append((path, b, outp[-500:]))
            else:
                harness_errors.append(f"replay of {path} ended with exit {rc}: {outp[-300:]}")
        n_buckets_total = len(buckets)

    # ---- 5. evidence -------------------------------------------------------------------------------
    evaluations = sum(a["evaluations"] for a in agg.values())
    distinct_nontrivial = sum(len(a["nontrivial"]) for a in agg.values())
    samples = []
    for an, a in agg.items():
        for s in a["samples"][:3]:
            samples.append({"arm": an, "case": s})
    labels = {an: dict(a["labels"]) for an, a in agg.items()}
    missing_labels = []
    if tier == "thorough":
        for arm in arms:
            for lb in arm.required_labels:
                if agg.get(arm.name, {}).get("labels", {}).get(lb, 0) == 0:
                    missing_labels.append(f"{arm.name}:{lb}")
    inconclusive = sum(a["skipped_budget"] for a in agg.values())
    coverage = {
        "evaluations": int(evaluations),
        "distinct_nontrivial": int(distinct_nontrivial),
        "rule": PROP["rule"],
        "samples": samples[:8] or [{"note": "no non-trivial sample collected"}],
        "exhaustive": bool(arms and all(a.exhaustive for a in arms)),
        "per_arm": {an: {"evaluations": a["evaluations"], "distinct_nontrivial": len(a["nontrivial"]),
                         "shards": a["shards"], "rejected": dict(a["rejected"]),
                         "excluded_by_known_finding": dict(a["excluded"]), "info": dict(a["info"])}
                    for an, a in agg.items()},
        "labels": labels,
        "known_findings_seen": known_seen,
        "regressions_replayed": len(reg_files),
        "regressions_failed": n_reg_fail,
        "buckets": n_buckets_total,
        "unreproducible": [u[:2] for u in unreproducible],
        "inconclusive_after_budget": int(inconclusive),
        "missing_required_labels": missing_labels,
        "harness_errors": [h[:400] for h in harness_errors][:5],
        "repo": os.environ.get("PV_REPO", "/repo"),
    }
    evidence = {
        "property_id": pid,
        "tier": tier,
        "seed": seed,
        "level": "exploration",
        "coverage": coverage,
        "assumptions": PROP.get("assumptions", []),
        "wall_s": round(time.time() - t_start, 2),
        "violations": len(violations_out),
    }
    if not args.no_evidence:
        os.makedirs(os.path.join(VERIF_ROOT, "evidence"), exist_ok=True)
        with open(os.path.join(VERIF_ROOT, "evidence", f"{pid}.json"), "w") as fh:
            json.dump(evidence, fh, indent=1, sort_keys=True)
        if args.tier == "thorough":
            # keep the record of the deep run next to the file that the next quick run rewrites
            os.makedirs(os.path.join(VERIF_ROOT, "evidence", "thorough"), exist_ok=True)
            with open(os.path.join(VERIF_ROOT, "evidence", "thorough", f"{pid}.json"), "w") as fh:
                json.dump(evidence, fh, indent=1, sort_keys=True)

    for an, a in agg.items():
        log(f"[{pid}/{an}] evaluations={a['evaluations']} nontrivial={len(a['nontrivial'])} "
            f"rejected={sum(a['rejected'].values())} excluded={sum(a['excluded'].values())} "
            f"violating_buckets={len({v['bucket'] for v in a['violations']})}")
        if os.environ.get("PV_VERBOSE"):
            log("   labels:", dict(a["labels"]))
            log("   rejected:", dict(a["rejected"]))
    for path, b, msg in violations_out:
        print(f"  bucket={b} :: {msg[:400]}")
        print(f"VIOLATION property={pid} replay={path}")
    if violations_out:
        exit_code = 1
    for u in unreproducible:
        # the deciding step is the replay of the saved case in a fresh process: a failure that two fresh replays of the
        # case do not show is not a demonstrated violation (recorded in the evidence file, exit code unchanged)
        log("INCONCLUSIVE (failed inside the campaign, passes when the saved case is replayed in a fresh process):", u)
    if harness_errors or missing_labels:
        for h in harness_errors[:5]:
            log("HARNESS-ERROR:", h)
        for m in missing_labels:
            log("HARNESS-INSUFFICIENT: required label never generated:", m)
        if exit_code == 0:
            exit_code = 2
    log(f"[{pid}] tier={tier} seed={seed} evaluations={evaluations} distinct_nontrivial={distinct_nontrivial} "
        f"violations={len(violations_out)} wall={time.time() - t_start:.1f}s exit={exit_code}")
    return exit_code


if __name__ == "__main__":
    try:
        rc = main()
    except SystemExit:
        raise
    except BaseException as e:  # harness failure: never exit 1, never print VIOLATION
        import traceback
        traceback.print_exc()
        print(f"HARNESS-ERROR {type(e).__name__}: {e}", file=sys.stderr)
        rc = 2
    sys.exit(rc)
