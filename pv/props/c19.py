"""C19 - DDEHistory returns the piecewise-linear interpolant of what it was given.

Stateful (rule based) model-based test: every history of init/update/bulk/query/mutate operations is run against
pyrates.backend.base.base_backend.DDEHistory and against a list-based reference model.
"""
import math

import numpy as np

from ..arm import Arm
from ..common import CaseResult, exc_bucket, short_exc

PROPERTY = {
    "id": "C19",
    "rule": ("Hypothesis RuleBasedStateMachine histories over DDEHistory: init(shape in {(),(n,),(n,m)}, dtype in "
             "{f4,f8,c16}, t0, optional max_steps) then update(t strictly increasing, irregular gaps) / bulk(n<=2500 "
             "deterministic records) / query(knot|interior|before|after|far) / mutate_caller_array; oracle = Python-list "
             "model with the exact piecewise-linear formula (knots exact, interior rtol 1e-12 f8 / 1e-5 f4), checked at "
             "every query, after every refusal and in a full knot scan at the end. Non-trivial = history with >=1 buffer "
             "growth event (record count crossing 1024/2048/4096) or >=1 interior query between knots with unequal "
             "neighbouring gaps; distinct = distinct canonical JSON of the operation list."),
    "assumptions": [
        "update times are strictly increasing and all values finite (the property's stated domain)",
        "bounded history: an update must be accepted while fewer than max_steps rows are stored and must be refused "
        "once max_steps+1 rows would be exceeded (both readings of 'capacity' are tolerated in between)",
    ],
}

DT = {"f4": np.float32, "f8": np.float64, "c16": np.complex128}
GROW_AT = (1024, 2048, 4096)


def _mk(vals, shape, dtype):
    size = int(np.prod(shape)) if shape else 1
    v = np.asarray(vals, dtype=float)
    if dtype == "c16":
        v = v[:size] + 1j * v[size:2 * size]
    else:
        v = v[:size]
    return np.array(v.reshape(shape), dtype=DT[dtype])


def _bulk_y(k, shape, dtype, a, b, w):
    size = int(np.prod(shape)) if shape else 1
    j = np.arange(size, dtype=float)
    re = a * k + b * np.sin(w * k + j) + j
    if dtype == "c16":
        v = re + 1j * (b * np.cos(w * k - j) - 0.5 * a * k)
    else:
        v = re
    return np.array(np.reshape(v, shape), dtype=DT[dtype])


class Interp:
    """Executes operations on the real DDEHistory and on the list model; records violations in res."""

    def __init__(self, res: CaseResult):
        self.res = res
        self.h = None
        self.ts = []
        self.ys = []
        self.dead = False
        self.last_arr = None
        self.growths = 0
        self.interior_irregular = 0
        self.refusals = 0
        self.nq = 0
        self.held = []  # (returned object, copy taken at return time, description): answers given earlier must not change

    # -- reference -------------------------------------------------------------------------------
    def _locate(self, t):
        ts = self.ts
        lo, hi = 0, len(ts) - 1
        # invariant ts[lo] <= t < ts[hi]
        while hi - lo > 1:
            mid = (lo + hi) // 2
            if ts[mid] <= t:
                lo = mid
            else:
                hi = mid
        return lo

    def expected(self, t):
        """returns (value, exact?, magnitude, irregular?)"""
        ts, ys = self.ts, self.ys
        if t <= ts[0]:
            return ys[0], True, None, False
        if t >= ts[-1]:
            return ys[-1], True, None, False
        i = self._locate(t)
        if t == ts[i]:
            return ys[i], True, None, False
        g = ts[i + 1] - ts[i]
        alpha = (t - ts[i]) / g
        val = ys[i].astype(np.complex128 if self.dtype == "c16" else np.float64)
        nxt = ys[i + 1].astype(val.dtype)
        exp = val + alpha * (nxt - val)
        mag = np.abs(val) + np.abs(nxt)
        irregular = False
        if i >= 1 and abs((ts[i] - ts[i - 1]) - g) > 1e-9 * g:
            irregular = True
        if i + 2 < len(ts) and abs((ts[i + 2] - ts[i + 1]) - g) > 1e-9 * g:
            irregular = True
        return exp, False, mag, irregular

    def check_query(self, t, what):
        if self.dead:
            return
        self.nq += 1
        try:
            raw = self.h(t)
            got = np.array(raw)
        except Exception as e:
            self.res.violate(exc_bucket("query-raises", e), f"{what}: hist({t!r}) raised {short_exc(e)}")
            self.dead = True
            return
        exp, exact, mag, irregular = self.expected(t)
        if got.shape != tuple(self.shape):
            self.res.violate("query-shape", f"{what}: hist({t!r}) has shape {got.shape}, state shape {self.shape}")
            self.dead = True
            return
        if exact:
            ok = np.array_equal(got, exp)
        else:
            rtol = 1e-5 if self.dtype == "f4" else 1e-12
            ok = bool(np.all(np.abs(got - exp) <= rtol * mag + (1e-30 if self.dtype == "f4" else 1e-300))) and bool(np.all(np.isfinite(got)))
            if irregular:
                self.interior_irregular += 1
        if not ok:
            kind = "knot/outside" if exact else "interior"
            self.res.violate(f"wrong-value:{kind}:{what.split('#')[0]}",
                             f"{what}: hist({t!r}) = {np.ravel(got)[:4]} expected {np.ravel(exp)[:4]} "
                             f"(records={len(self.ts)}, t0={self.ts[0]!r}, tlast={self.ts[-1]!r})")
            self.dead = True
            return
        # an answer given earlier stays what it was: later queries / updates must not alter the returned arrays
        for obj, snap, desc in self.held:
            if not np.array_equal(np.asarray(obj), snap):
                self.res.violate("earlier-answer-changed",
                                 f"the array returned for {desc} was altered by a later operation ({what}: hist({t!r})): "
                                 f"now {np.ravel(np.asarray(obj))[:4]}, was {np.ravel(snap)[:4]}")
                self.dead = True
                return
        if isinstance(raw, np.ndarray):
            self.held.append((raw, got.copy(), f"{what}: hist({t!r})"))
            if len(self.held) > 6:
                self.held.pop(0)

    def scan(self, what, stride=1):
        n = len(self.ts)
        for i in range(0, n, stride):
            if self.dead:
                return
            self.check_query(self.ts[i], f"{what}#knot{i}")
        # interior points around growth boundaries and at the end
        for i in {0, n - 2, 1022, 1023, 1024, 2046, 2047, 2048, 4094, 4095, 4096}:
            if 0 <= i < n - 1 and not self.dead:
                self.check_query(self.ts[i] + 0.37 * (self.ts[i + 1] - self.ts[i]), f"{what}#mid{i}")

    # -- operations ------------------------------------------------------------------------------
    def step(self, op):
        if self.dead:
            return
        k = op["op"]
        if k == "init":
            from pyrates.backend.base.base_backend import DDEHistory
            self.shape = tuple(op["shape"])
            self.dtype = op["dtype"]
            self.max_steps = op.get("max_steps")
            y0 = _mk(op["y0"], self.shape, self.dtype)
            t0 = float(op["t0"])
            try:
                if self.max_steps is None:
                    self.h = DDEHistory(y0, t0)
                else:
                    self.h = DDEHistory(y0, t0, max_steps=int(self.max_steps))
            except Exception as e:
                self.res.violate(exc_bucket("init-raises", e), short_exc(e))
                self.dead = True
                return
            self.ts = [t0]
            self.ys = [y0.copy()]
            self.last_arr = y0
            self.res.labels.append("dtype:" + self.dtype)
            self.res.labels.append("rank:%d" % len(self.shape))
            if self.max_steps is not None:
                self.res.labels.append("bounded")
        elif k == "update":
            y = _mk(op["y"], self.shape, self.dtype)
            self._update(self.ts[-1] + float(op["gap"]), y)
        elif k == "bulk":
            gaps = op["gaps"]
            for j in range(int(op["n"])):
                if self.dead:
                    return
                kk = len(self.ts)
                y = _bulk_y(kk, self.shape, self.dtype, op["a"], op["b"], op["w"])
                self._update(self.ts[-1] + float(gaps[j % len(gaps)]), y)
        elif k == "query":
            kind = op["kind"]
            n = len(self.ts)
            if kind == "knot":
                t = self.ts[int(op["i"]) % n]
            elif kind == "interior":
                if n < 2:
                    t = self.ts[0]
                else:
                    i = int(op["i"]) % (n - 1)
                    t = self.ts[i] + float(op["f"]) * (self.ts[i + 1] - self.ts[i])
            elif kind == "before":
                t = self.ts[0] - float(op["d"])
            elif kind == "after":
                t = self.ts[-1] + float(op["d"])
            elif kind == "repeat":
                # exactly the time of the previous query (records may have been added in between)
                t = getattr(self, "last_q_t", self.ts[-1])
                self.res.labels.append("repeat_query")
            else:
                t = float(op["t"])
            self.last_q_t = t
            self.check_query(t, "query:" + kind)
        elif k == "mutate":
            arr = self.last_arr
            if arr is not None:
                arr[...] = arr * 3 + 1000.0
                self.res.labels.append("mutate")
                n = len(self.ts)
                self.check_query(self.ts[-1], "after-mutate:last")
                if n >= 2:
                    self.check_query(0.5 * (self.ts[-1] + self.ts[-2]), "after-mutate:mid")
        else:
            raise ValueError(k)

    def _update(self, t, y):
        n = len(self.ts)
        self.last_arr = y
        ycopy = y.copy()
        try:
            self.h.update(t, y)
        except Exception as e:
            if self.max_steps is not None:
                cap = max(int(self.max_steps), 1)
                if n < cap:
                    self.res.violate(exc_bucket("bounded-refuses-within-capacity", e),
                                     f"update #{n} refused although max_steps={self.max_steps}: {short_exc(e)}")
                    self.dead = True
                    return
                self.refusals += 1
                if self.refusals == 1:
                    self.res.labels.append("refused")
                    self.scan("after-refusal")
                else:
                    self.check_query(self.ts[-1], "after-refusal:last")
                return
            self.res.violate(exc_bucket("update-raises", e), f"update #{n} at t={t!r}: {short_exc(e)}")
            self.dead = True
            return
        if self.max_steps is not None and n >= max(int(self.max_steps), 1) + 1:
            self.res.violate("bounded-accepts-beyond-capacity",
                             f"update #{n} accepted although max_steps={self.max_steps}")
            self.dead = True
            return
        self.ts.append(t)
        self.ys.append(ycopy)
        if n in GROW_AT and self.max_steps is None:
            # record count goes from cap to cap+1 -> the buffer had to grow
            self.growths += 1
            self.res.labels.append("growth@%d" % n)
            self.check_query(self.ts[n - 1], "after-growth:prev")
            self.check_query(self.ts[n], "after-growth:new")
            self.check_query(0.5 * (self.ts[n - 1] + self.ts[n]), "after-growth:mid")
            self.check_query(self.ts[0], "after-growth:first")

    def finish(self):
        if self.h is not None and not self.dead:
            n = len(self.ts)
            self.scan("final", stride=1 if n <= 1500 else 3)
        self.res.nontrivial = bool(self.growths or self.interior_irregular)
        if self.interior_irregular:
            self.res.labels.append("interior_irregular")
        self.res.info = {"queries": self.nq, "records": len(self.ts)}


def run_history(ops):
    res = CaseResult()
    it = Interp(res)
    for op in ops:
        it.step(op)
    it.finish()
    return res


class HistoryArm(Arm):
    name = "history"
    kind = "stateful"
    budget = {"quick": 6000, "thorough": 60000}
    steps = {"quick": 30, "thorough": 50}
    min_per_shard = 50
    required_labels = ("growth@1024", "growth@2048", "interior_irregular", "refused", "mutate", "dtype:f4",
                       "dtype:c16", "rank:2")

    def run(self, case, ctx):
        return run_history(case["ops"])

    def sample(self, case):
        ops = case["ops"]
        out = []
        for op in ops[:12]:
            o = dict(op)
            for key in ("y", "y0", "gaps"):
                if key in o and len(o[key]) > 4:
                    o[key] = o[key][:4] + ["..."]
            out.append(o)
        return {"n_ops": len(ops), "ops": out}

    def machine(self, ctx, sink, budget_hook):
        from hypothesis import strategies as st
        from hypothesis.stateful import RuleBasedStateMachine, initialize, precondition, rule

        fl = st.floats(min_value=-1e3, max_value=1e3, allow_nan=False, allow_infinity=False, width=32)
        gap = st.one_of(st.floats(min_value=1e-6, max_value=10.0, allow_nan=False),
                        st.sampled_from([1e-3, 0.1, 0.25, 1.0, 2.0 ** -12, 2.0 ** -10]))
        shapes = st.sampled_from([[], [1], [3], [2, 2], [3, 1]])
        big = ctx.tier == "thorough"
        bulk_n = st.one_of(st.integers(1, 40), st.integers(1000, 1100),
                           st.integers(1, 2500 if big else 1500))

        class Machine(RuleBasedStateMachine):
            def __init__(self):
                super().__init__()
                self.ops = []
                self.res = CaseResult()
                self.it = Interp(self.res)
                self.skip = budget_hook()

            def _do(self, op):
                if self.skip:
                    return
                self.ops.append(op)
                self.it.step(op)

            @initialize(shape=shapes, dtype=st.sampled_from(["f8", "f8", "f4", "c16"]),
                        t0=st.one_of(st.just(0.0), st.floats(-5, 5, allow_nan=False),
                                     st.sampled_from([1048576.0, 1.7e9, -3.0e6, 86400.0 * 365])),
                        max_steps=st.one_of(st.none(), st.none(), st.integers(1, 8), st.sampled_from([1030, 1500, 2100])),
                        y0=st.lists(fl, min_size=8, max_size=8))
            def init(self, shape, dtype, t0, max_steps, y0):
                self._do({"op": "init", "shape": shape, "dtype": dtype, "t0": t0, "max_steps": max_steps, "y0": y0})

            @rule(g=gap, y=st.lists(fl, min_size=8, max_size=8))
            def update(self, g, y):
                self._do({"op": "update", "gap": g, "y": y})

            @precondition(lambda self: (self.it.max_steps is None or self.it.max_steps > 1000) and len(self.it.ts) < 5200)
            @rule(n=bulk_n, gaps=st.lists(gap, min_size=1, max_size=4), a=st.floats(-2, 2, allow_nan=False),
                  b=st.floats(-5, 5, allow_nan=False), w=st.floats(0.01, 2, allow_nan=False))
            def bulk(self, n, gaps, a, b, w):
                self._do({"op": "bulk", "n": n, "gaps": gaps, "a": a, "b": b, "w": w})

            @rule(i=st.integers(0, 6000))
            def q_knot(self, i):
                self._do({"op": "query", "kind": "knot", "i": i})

            @rule(i=st.integers(0, 6000), f=st.floats(0.001, 0.999, allow_nan=False))
            def q_interior(self, i, f):
                self._do({"op": "query", "kind": "interior", "i": i, "f": f})

            @rule(i=st.integers(1, 4), f=st.floats(0.001, 0.999, allow_nan=False))
            def q_interior_recent(self, i, f):
                n = len(self.it.ts)
                self._do({"op": "query", "kind": "interior", "i": max(0, n - 1 - i), "f": f})

            @rule(d=st.floats(0, 100, allow_nan=False))
            def q_before(self, d):
                self._do({"op": "query", "kind": "before", "d": d})

            @rule(d=st.floats(0, 100, allow_nan=False))
            def q_after(self, d):
                self._do({"op": "query", "kind": "after", "d": d})

            @rule(t=st.floats(-50, 200, allow_nan=False))
            def q_abs(self, t):
                self._do({"op": "query", "kind": "abs", "t": t})

            @rule()
            def q_repeat(self):
                self._do({"op": "query", "kind": "repeat"})

            @rule()
            def mutate(self):
                self._do({"op": "mutate"})

            def teardown(self):
                if self.skip or not self.ops:
                    return
                self.it.finish()
                sink({"ops": self.ops}, self.res)

        return Machine


ARMS = [HistoryArm()]
