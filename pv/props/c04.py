"""C04 - vectorisation does not change the model (metamorphic: vectorize=True vs vectorize=False)."""
import numpy as np
from hypothesis import strategies as st

from .. import gen
from ..arm import Arm
from ..common import CaseResult, HarnessError, exc_bucket, short_exc
from ..findings import excluded_by
from ..model import RefModel, run_circuit, spec_features

PROPERTY = {
    "id": "C04",
    "rule": ("Hypothesis-generated circuits with 1-2 node types x 1-10 structurally identical nodes (shared template "
             "objects and per-node overrides), 0-14 edges with drawn density (self-connections, fan-in from several "
             "node types, duplicate targets, parallel edges), matrix_sparseness drawn from {default,0,0.5,1} so that "
             "both the matrix-product and the indexed edge path run; the same spec is simulated with run(vectorize="
             "True) and run(vectorize=False) (Euler, 12-25 steps, all state variables requested by path) and the two "
             "DataFrames must agree column by column (1e-9 relative to the trajectory scale); the reference "
             "interpreter is simulated too and names the side that is wrong. Non-trivial = >=2 nodes share an "
             "operator structure and >=1 edge; distinct = canonical JSON of (spec, config)."),
    "assumptions": [
        "outputs requested in dict form with one full path per key (the most basic addressing form; addressing itself "
        "is C06)",
        "contractive-by-construction dynamics (every DE carries a leak), short horizons; non-finite reference "
        "trajectories are discarded",
    ],
}
PROPERTY["rule"] += ' One case in five of the main arm delays a subset of the edges by 2-7 steps.'


def run_both(spec, cfg, res: CaseResult):
    rm = RefModel(spec)
    sp = rm.state_paths
    cols = None
    if any(e.get("sp") is not None for e in spec["edges"]):
        # gamma-kernel edges: the reference is the explicitly augmented system, restricted to the user's variables
        from ..model import augment_gamma
        rm = RefModel(augment_gamma(spec))
        cols = [rm.state_paths.index(p) for p in sp]
    outputs = {f"v{i}": p for i, p in enumerate(sp)}
    dt = cfg["dt"]
    steps = cfg["steps"]
    T = dt * steps
    kw = {}
    if cfg.get("matrix_sparseness") is not None:
        kw["matrix_sparseness"] = cfg["matrix_sparseness"]
    ref = rm.simulate(steps, dt, solver="euler")[:steps]
    if cols is not None:
        ref = ref[:, cols]
    if not np.all(np.isfinite(ref)) or np.max(np.abs(ref)) > 1e6:
        res.rejected = "reference trajectory not finite/benign"
        return
    out = {}
    # reuse: both compilations are made on ONE CircuitTemplate instance, one after the other (what a user who compares
    # the two settings does); otherwise every compilation gets templates of its own
    reuse = cfg.get("reuse")
    order = (True, False) if reuse == "vec_first" else (False, True)
    circuit = None
    if reuse:
        from .. import isolate
        from ..model import build_circuit
        isolate.reset()
        circuit = build_circuit(spec)
        kw["in_place"] = bool(cfg.get("in_place"))
    for vec in order:
        try:
            df = run_circuit(spec, T, dt, dict(outputs), solver="euler", vectorize=vec, circuit=circuit, **kw)
        except HarnessError:
            raise
        except Exception as e:
            if not vec and not (reuse == "vec_first"):
                res.rejected = f"novec-raises:{type(e).__name__}"
                return
            if not vec:
                # second compilation on the same instance: only a failure that a fresh instance does not show counts
                try:
                    run_circuit(spec, T, dt, dict(outputs), solver="euler", vectorize=False,
                                **{k: v for k, v in kw.items() if k != "in_place"})
                except HarnessError:
                    raise
                except Exception:
                    res.rejected = f"novec-raises:{type(e).__name__}"
                    return
                res.violate(exc_bucket("second-compilation-raises", e),
                            f"run(vectorize=False) after run(vectorize=True) on the same template raised although a fresh "
                            f"template works: {short_exc(e)}")
                return
            res.violate(exc_bucket("vectorized-run-raises", e),
                        f"run(vectorize=True) raised although vectorize=False works: {short_exc(e)}")
            return
        try:
            arr = np.column_stack([np.asarray(df[f"v{i}"], dtype=float) for i in range(len(sp))])
        except Exception as e:
            res.violate(f"output-shape:vec={vec}", f"cannot extract requested columns: {short_exc(e)}; columns={list(df.columns)[:6]}")
            return
        out[vec] = arr
    a, b = out[False], out[True]
    if a.shape != b.shape:
        res.violate("shape-differs", f"vectorize=False gives {a.shape}, vectorize=True gives {b.shape}")
        return
    scale = 1.0 + np.max(np.abs(ref))
    tol = 1e-9 * scale
    d = np.abs(a - b)
    d = np.where(np.isfinite(d), d, np.inf)
    if np.max(d) > tol:
        j = int(np.argmax(np.max(d, axis=0)))
        n = min(len(ref), len(a))
        ea = float(np.max(np.abs(a[:n] - ref[:n])))
        eb = float(np.max(np.abs(b[:n] - ref[:n])))
        side = "vectorize=True" if eb > ea else "vectorize=False"
        res.violate(f"trajectories-differ:{'vec' if eb > ea else 'novec'}-off-reference",
                    f"{sp[j]}: max|vec-novec|={np.max(d):.3g} (tol {tol:.2g}); |novec-ref|={ea:.3g} |vec-ref|={eb:.3g} "
                    f"-> {side} deviates from the reference interpreter")
        return
    res.info["columns_compared"] = res.info.get("columns_compared", 0) + a.shape[1]


class TrajArm(Arm):
    name = "traj"
    budget = {"quick": 1200, "thorough": 12000}
    min_per_shard = 12
    required_labels = ("shared_node_template", "self_connection", "fan_in", "parallel_edges", "sparseness=0",
                       "sparseness=1", "merged>=4", "same_instance:vec_first:in_place", "same_instance:novec_first",
                       "delays:some_edges")

    def strategy(self, ctx):
        @st.composite
        def case(draw):
            spec = draw(gen.model_spec({"leak": True, "max_types": 2, "max_ops": 2, "max_nodes": 10, "max_edges": 14, "min_nodes": 2, "min_edges": 1,
                                        "depths": [0, 0, 0, 1], "expr_depth": 2, "max_state": 2, "max_alg": 1,
                                        "max_in": 2}))
            cfg = {"vectorize": True, "dt": draw(st.sampled_from([0.01, 0.02, 0.005])),
                   "steps": draw(st.integers(12, 25)),
                   "matrix_sparseness": draw(st.sampled_from([None, None, 0.0, 0.5, 1.0])),
                   "reuse": draw(st.sampled_from([None, None, None, "vec_first", "novec_first"])),
                   "in_place": draw(st.booleans())}
            if spec["edges"] and draw(st.integers(0, 4)) == 0:
                # discrete delays of 2..7 steps on a subset of the edges (delayed and undelayed edges may leave one source)
                from .c09 import add_delays
                spec, _ = add_delays(draw, spec, cfg["dt"])
                cfg["steps"] = draw(st.integers(16, 28))
            return {"spec": spec, "cfg": cfg}
        from ..finding_predicates import repair_case
        return case().map(lambda c: repair_case(c, ctx))

    def run(self, case, ctx):
        res = CaseResult()
        ex = excluded_by("C04", case, ctx)
        if ex:
            res.excluded = ex
            return res
        spec = case["spec"]
        f = spec_features(spec)
        if any(e.get("d") is not None for e in spec["edges"]):
            f.add("delays:some_edges")
        groups = {}
        from ..finding_predicates import _merged_node_key
        for p, _ in spec["nodes"]:
            groups.setdefault(_merged_node_key(spec, p, True), []).append(p)
        mx = max(len(v) for v in groups.values())
        if mx >= 2:
            f.add("merged>=2")
        if mx >= 4:
            f.add("merged>=4")
        ms = case["cfg"].get("matrix_sparseness")
        f.add("sparseness=" + ("default" if ms is None else str(int(ms)) if ms in (0.0, 1.0) else str(ms)))
        if case["cfg"].get("reuse"):
            f.add("same_instance:" + case["cfg"]["reuse"] + (":in_place" if case["cfg"].get("in_place") else ""))
        res.labels = sorted(f)
        res.labels += ["repaired:" + r for r in case.get("_repaired", [])]
        res.nontrivial = mx >= 2 and bool(spec.get("edges"))
        run_both(spec, case["cfg"], res)
        return res

    def sample(self, case):
        from ..model import render_eq
        spec = case["spec"]
        return {"ops": {o: [render_eq(*e) for e in od["eqs"]] for o, od in spec["ops"].items()},
                "nodes": spec["nodes"], "edges": [[e["s"], e["t"], e["w"]] for e in spec["edges"]], "cfg": case["cfg"]}


class IndexedEdgesArm(TrajArm):
    """structured shapes of the index-based edge path: 3-12 structurally identical nodes, one (source variable, target
    variable) pair, edges with pairwise distinct targets (rings, shifts, partial permutations) listed in drawn order with
    heterogeneous weights; matrix_sparseness chosen so that the indexed realisation is used"""
    name = "indexed_edges"
    budget = {"quick": 300, "thorough": 4000}
    min_per_shard = 10
    required_labels = ("ring", "partial_permutation", "sparseness=1", "merged>=4", "delays:discrete", "delays:gamma")

    def strategy(self, ctx):
        @st.composite
        def case(draw):
            base = draw(gen.model_spec({"leak": True, "max_types": 1, "max_ops": 2, "max_nodes": 1, "min_nodes": 1, "max_edges": 0,
                                        "depths": [0], "expr_depth": 2, "max_state": 2, "max_alg": 1, "max_in": 2,
                                        "overrides": False, "collision": False}))
            n = draw(st.integers(3, 12))
            nt = base["nodes"][0][1]
            base["nodes"] = [[f"p{i}", nt] for i in range(n)]
            spec = gen.uniquify_init(base)
            rm = RefModel(spec)
            tg = sorted(k[len("p0/"):] for k, kd in rm.kind.items() if kd == "input" and k.startswith("p0/"))
            sr = sorted(k[len("p0/"):] for k in rm.state_paths if k.startswith("p0/"))
            if not tg or not sr:
                return {"spec": spec, "cfg": {"vectorize": True, "dt": 0.01, "steps": 12, "matrix_sparseness": 1.0}, "shape": "none"}
            tv, sv = draw(st.sampled_from(tg)), draw(st.sampled_from(sr))
            shape = draw(st.sampled_from(["ring", "ring", "partial_permutation", "permutation"]))
            if shape == "ring":
                shift = draw(st.integers(1, n - 1))
                pairs = [(i, (i + shift) % n) for i in range(n)]
            else:
                targets = draw(st.permutations(list(range(n))))
                m = n if shape == "permutation" else draw(st.integers(2, n))
                sources = [draw(st.integers(0, n - 1)) for _ in range(m)]
                pairs = list(zip(sources, targets[:m]))
            pairs = list(draw(st.permutations(pairs)))
            spec["edges"] = [{"s": f"p{i}/{sv}", "t": f"p{j}/{tv}", "w": round(0.3 + 0.21 * k * (-1) ** k, 3), "d": None, "sp": None,
                              "et": None, "scope": ""} for k, (i, j) in enumerate(pairs)]
            steps = draw(st.integers(10, 16))
            delays = draw(st.sampled_from([None, None, "discrete", "gamma"]))
            if delays == "discrete":
                # delays of 2..6 steps, one value for all edges or one per edge
                same = draw(st.booleans())
                d0 = draw(st.integers(2, 6))
                for e in spec["edges"]:
                    e["d"] = round(0.01 * (d0 if same else draw(st.integers(2, 6))), 4)
                steps = draw(st.integers(16, 24))
            elif delays == "gamma":
                # unit-gain gamma kernels: one (delay, spread) pair for all edges (a single chain group) or two pairs
                pairs = [(0.1, 1), (0.2, 2), (0.1, 3)]
                k0 = draw(st.integers(0, 2))
                two = draw(st.booleans())
                for i, e in enumerate(spec["edges"]):
                    d, order = pairs[(k0 + (i % 2 if two else 0)) % 3]
                    e["d"], e["sp"] = d, round(d / float(np.sqrt(order)), 6)
                steps = draw(st.integers(16, 24))
            cfg = {"vectorize": True, "dt": 0.01, "steps": steps,
                   "matrix_sparseness": draw(st.sampled_from([1.0, 1.0, 0.5, None]))}
            return {"spec": spec, "cfg": cfg, "shape": shape, "delays": delays}
        from ..finding_predicates import repair_case
        return case().map(lambda c: repair_case(c, ctx))

    def run(self, case, ctx):
        res = super().run(case, ctx)
        if case.get("shape") == "none":
            res.rejected = "node type without input or state variable"
        res.labels = sorted(set(res.labels) | {case.get("shape", "?")} | ({"delays:" + case["delays"]} if case.get("delays") else set()))
        return res


class CrossTypeArm(TrajArm):
    """projections between two node types through the index-based edge path: a source type with 1-3 nodes and a target
    type with 2-12 nodes, every target node receives at most one edge of the projection (pairwise distinct targets, drawn
    order, heterogeneous weights); with a single source node this is the scalar-source fan-out (also the shape of a 1-D
    extrinsic input broadcast to many nodes); optionally a back projection (fan-in onto the few source-type nodes).
    matrix_sparseness 1.0 forces the indexed realisation for any size, the default does so from ten targets on."""
    name = "cross_type"
    budget = {"quick": 200, "thorough": 3000}
    min_per_shard = 8
    required_labels = ("single_source_fan_out", "targets>=10", "back_projection")

    def strategy(self, ctx):
        @st.composite
        def case(draw):
            base = draw(gen.model_spec({"leak": True, "min_types": 2, "max_types": 2, "max_ops": 2, "max_nodes": 2, "min_nodes": 2,
                                        "max_edges": 0, "depths": [0], "expr_depth": 2, "max_state": 2, "max_alg": 1, "max_in": 2,
                                        "overrides": False, "collision": False}))
            types = sorted(base["ntypes"])
            has_in = [nt for nt in types if any(v[1] == "input" for o in base["ntypes"][nt]["ops"] for v in base["ops"][o]["vars"])]
            if not has_in:
                return {"spec": gen.uniquify_init(base), "cfg": {"vectorize": True, "dt": 0.01, "steps": 12, "matrix_sparseness": 1.0}, "shape": "none"}
            tt = draw(st.sampled_from(has_in))
            ts = [nt for nt in types if nt != tt][0]
            n_s = draw(st.sampled_from([1, 1, 2, 3]))
            n_t = draw(st.one_of(st.integers(2, 6), st.integers(10, 12)))
            base["nodes"] = [[f"a{i}", ts] for i in range(n_s)] + [[f"b{i}", tt] for i in range(n_t)]
            base["nodes"] = list(draw(st.permutations(base["nodes"])))
            spec = gen.uniquify_init(base)
            rm = RefModel(spec)
            sr = sorted(k[len("a0/"):] for k in rm.state_paths if k.startswith("a0/"))
            tg = sorted(k[len("b0/"):] for k, kd in rm.kind.items() if kd == "input" and k.startswith("b0/"))
            if not sr or not tg:
                return {"spec": spec, "cfg": {"vectorize": True, "dt": 0.01, "steps": 12, "matrix_sparseness": 1.0}, "shape": "none"}
            sv, tv = draw(st.sampled_from(sr)), draw(st.sampled_from(tg))
            m = draw(st.one_of(st.just(n_t), st.integers(2, n_t)))
            targets = list(draw(st.permutations(list(range(n_t)))))[:m]
            edges = [{"s": f"a{draw(st.integers(0, n_s - 1))}/{sv}", "t": f"b{j}/{tv}", "w": round(0.4 + 0.23 * k * (-1) ** k, 3),
                      "d": None, "sp": None, "et": None, "scope": ""} for k, j in enumerate(targets)]
            back = False
            sr_b = sorted(k[len("b0/"):] for k in rm.state_paths if k.startswith("b0/"))
            tg_a = sorted(k[len("a0/"):] for k, kd in rm.kind.items() if kd == "input" and k.startswith("a0/"))
            if sr_b and tg_a and draw(st.booleans()):
                back = True
                sv2, tv2 = draw(st.sampled_from(sr_b)), draw(st.sampled_from(tg_a))
                for k in range(draw(st.integers(1, min(n_t, 4)))):
                    edges.append({"s": f"b{draw(st.integers(0, n_t - 1))}/{sv2}", "t": f"a{draw(st.integers(0, n_s - 1))}/{tv2}",
                                  "w": round(-0.3 + 0.17 * k, 3), "d": None, "sp": None, "et": None, "scope": ""})
            spec["edges"] = list(draw(st.permutations(edges)))
            cfg = {"vectorize": True, "dt": 0.01, "steps": draw(st.integers(10, 16)),
                   "matrix_sparseness": draw(st.sampled_from([1.0, 1.0, None, None, 0.5]))}
            return {"spec": spec, "cfg": cfg, "shape": "cross", "n_s": n_s, "m": m, "back": back}
        from ..finding_predicates import repair_case
        return case().map(lambda c: repair_case(c, ctx))

    def run(self, case, ctx):
        res = super().run(case, ctx)
        if case.get("shape") == "none":
            res.rejected = "fewer than two node types / no state or input variable"
        lab = set(res.labels)
        if case.get("n_s") == 1:
            lab.add("single_source_fan_out")
        if case.get("m", 0) >= 10:
            lab.add("targets>=10")
        if case.get("back"):
            lab.add("back_projection")
        res.labels = sorted(lab)
        return res


class EdgeTemplateArm(TrajArm):
    """ONE EdgeTemplate with an algebraic operator used by several edge groups: two node types with 2-4 nodes each,
    2-3 (source type, target type) projections, inside each projection edges with pairwise distinct targets and per-edge
    values for the edge operator's constants.  (Unstructured mixtures - a plain edge parallel to a templated one, fan-in
    through the template, groups of a single node - fail in other ways on the unchanged tree: listed findings F-04e/f/g;
    they are not generated here.)"""
    name = "edge_templates"
    budget = {"quick": 240, "thorough": 3000}
    min_per_shard = 10
    required_labels = ("edge_template_shared", "groups>=2", "merged>=2")

    def strategy(self, ctx):
        from .. import expr as E

        @st.composite
        def case(draw):
            base = draw(gen.model_spec({"leak": True, "max_types": 2, "max_ops": 1, "max_nodes": 2, "min_nodes": 2, "max_edges": 0,
                                        "depths": [0], "expr_depth": 2, "max_state": 1, "max_alg": 0, "max_in": 2,
                                        "overrides": False, "collision": False}))
            types = sorted({nt for _, nt in base["nodes"]})
            sizes = {nt: draw(st.integers(2, 4)) for nt in types}
            base["nodes"] = [[f"{nt}_{i}", nt] for nt in types for i in range(sizes[nt])]
            spec = gen.uniquify_init(base)
            spec["nodes"] = [[p, nt] for p, nt in spec["nodes"]]
            rm = RefModel(spec)
            ast, _ = draw(E.expr_strategy(["s_e", "g_e", "c_e"], max_depth=2, funcs=["tanh", "sigmoid", "sin"], allow_pow=False))
            if not gen.depends_on(ast, "s_e", ["s_e", "g_e", "c_e"]):
                ast = ["bin", "*", ["var", "g_e"], ["call", "tanh", ["bin", "*", ["var", "c_e"], ["var", "s_e"]]]]
            vs = E.variables(ast)
            consts = [v for v in ("g_e", "c_e") if v in vs]
            spec["ops"]["eop0"] = {"vars": [["s_e", "input", 0.0], ["m_e", "alg", 0.0]] + [[v, "const", 1.5] for v in consts],
                                   "eqs": [["m_e", False, ast, 0]], "out": "m_e"}
            spec["etypes"] = {"et0": {"ops": ["eop0"], "ov": {}}}
            by_type = {nt: [p for p, n_ in base["nodes"] if n_ == nt] for nt in types}
            projections = draw(st.lists(st.tuples(st.sampled_from(types), st.sampled_from(types)), min_size=2, max_size=3, unique=True))
            val = st.sampled_from([0.7, 1.3, -0.4, 2.1, 0.25])
            edges, taken = [], set()
            for st_, tt_ in projections:
                p0s, p0t = by_type[st_][0], by_type[tt_][0]
                sr = sorted(k[len(p0s) + 1:] for k in rm.state_paths if k.startswith(p0s + "/"))
                tg = sorted(k[len(p0t) + 1:] for k, kd in rm.kind.items() if kd == "input" and k.startswith(p0t + "/"))
                tg = [t for t in tg if (tt_, t) not in taken]
                if not sr or not tg:
                    continue
                sv, tv = draw(st.sampled_from(sr)), draw(st.sampled_from(tg))
                taken.add((tt_, tv))
                targets = list(draw(st.permutations(by_type[tt_])))
                m = draw(st.integers(2, len(targets)))
                for j in range(m):
                    s_node = draw(st.sampled_from(by_type[st_]))
                    edges.append({"s": f"{s_node}/{sv}", "t": f"{targets[j]}/{tv}", "w": draw(st.sampled_from([2.0, 0.5, -1.5, 1.0])),
                                  "d": None, "sp": None, "et": "et0", "ev": {f"eop0/{c}": draw(val) for c in consts}, "scope": ""})
            spec["edges"] = edges
            cfg = {"vectorize": True, "dt": 0.01, "steps": draw(st.integers(10, 16)), "matrix_sparseness": None}
            return {"spec": spec, "cfg": cfg, "n_groups": len(taken)}
        return case()

    def run(self, case, ctx):
        res = super().run(case, ctx)
        if not case["spec"]["edges"] and not res.excluded:
            res.rejected = res.rejected or "no projection could be drawn"
            res.violations.clear()
        lab = set(res.labels)
        if len(case["spec"]["edges"]) >= 2:
            lab.add("edge_template_shared")
        if case.get("n_groups", 0) >= 2:
            lab.add("groups>=2")
        res.labels = sorted(lab)
        return res


ARMS = [TrajArm(), IndexedEdgesArm(), CrossTypeArm(), EdgeTemplateArm()]
