"""C15 - YAML, Python and inherited definitions of a model are equivalent."""
import copy
import os
import re
import warnings

import numpy as np
from hypothesis import strategies as st

from .. import expr as E
from .. import gen
from ..arm import Arm
from ..common import CaseResult, HarnessError, exc_bucket, short_exc
from ..model import edge_source_attributes, RefModel, build_circuit, render_eq, var_decl

PROPERTY = {
    "id": "C15",
    "rule": ("Arm `definitions`: a Hypothesis-generated spec (operators with identifiers that contain one another, shared "
             "operators, per-node overrides, hierarchy depth 0-2, several edges per pair) is defined (P) through the "
             "Python classes, (Y) through YAML files written by the harness, (R) by P.to_yaml followed by from_yaml, (Dy) "
             "through YAML files in which operators / the circuit are DERIVED via `base:` chains from altered base "
             "templates (identifier renamed to one contained in / containing other identifiers + replace, removed extra "
             "term + remove, missing last summand + append, missing equation + add, changed defaults + variables, "
             "circuit with fewer nodes + nodes/edges), and (Dp) by the same edits through OperatorTemplate.update_template; "
             "all five must give the same y0, arguments by name, vector field at y0 (vectorize off) and the same rows of "
             "a 4-step vectorized run. Arm `edits`: generated equation strings over the same identifier pool; "
             "parser.replace (incl. rhs_only / lhs_only) and OperatorTemplate.update_template(equations={replace, remove, "
             "append, prepend, add}).equations must equal a regex whole-identifier oracle. Non-trivial (definitions) = the "
             "model has an override, a shared operator, hierarchy or a derived template whose base contains an identifier "
             "that contains / is contained in the edited one; (edits) = the equation holds a longer identifier containing "
             "the term; distinct = canonical JSON of the case."),
    "assumptions": [
        "only models whose Python definition compiles are judged (C01); edge templates with operators are not generated",
        "edit terms start and end with an identifier or a number (the documented use); an edit dictionary is applied to "
        "every equation of the operator, as the code documents",
    ],
}
PROPERTY["rule"] += ' Variant rewrite: to_yaml of another version of the model, from_yaml, to_yaml of the judged model into the same file, from_yaml again - without cache reset, the file named in four notations.'

DT = 0.01
IDC = "A-Za-z0-9_"


# ----------------------------------------------------------------------------------------------------------------------
# observations
# ----------------------------------------------------------------------------------------------------------------------
def _idx(ix):
    return int(ix[0]) if isinstance(ix, (tuple, list)) else int(ix)


def observe(circ, state_paths):
    from .. import isolate
    isolate.reset(remove_files=False)
    with warnings.catch_warnings():
        warnings.simplefilter("ignore")
        c = copy.deepcopy(circ)
        func, args, names, svm = c.get_run_func("pv_c15", step_size=DT, vectorize=False, in_place=True, clear=False,
                                                verbose=False, float_precision="float64", backend="default")
    y0 = np.asarray(args[1], dtype=float).ravel()
    dy = np.zeros_like(np.asarray(args[2]))
    out = np.array(func(0, y0.copy(), dy, *args[3:]), dtype=float).ravel()
    obs = {"y0": {}, "vf": {}, "args": {}, "n_state": int(y0.size)}
    for p in state_paths:
        if p in svm:
            obs["y0"][p] = float(y0[_idx(svm[p])])
            obs["vf"][p] = float(out[_idx(svm[p])])
    for n, a in zip(names[3:], args[3:]):
        a = np.asarray(a, dtype=float).ravel()
        if a.size == 1:
            obs["args"].setdefault(re.sub(r"in_edge_\d+", "in_edge_#", n), []).append(float(a[0]))
    for v in obs["args"].values():
        v.sort()
    isolate.reset(remove_files=False)
    with warnings.catch_warnings():
        warnings.simplefilter("ignore")
        c = copy.deepcopy(circ)
        try:
            df = c.run(simulation_time=4 * DT, step_size=DT, outputs={f"v{i}": p for i, p in enumerate(state_paths)},
                       solver="euler", vectorize=True, verbose=False, clear=False, in_place=True,
                       float_precision="float64")
            obs["rows"] = {p: [float(x) for x in np.asarray(df[f"v{i}"], dtype=float).ravel()]
                           for i, p in enumerate(state_paths)}
        except Exception as e:
            obs["rows"] = f"raises {type(e).__name__}"
    return obs


def compare(ref, got):
    for sec in ("y0", "vf", "args"):
        a, b = ref[sec], got[sec]
        missing = sorted(set(a) - set(b))
        if missing:
            return f"{sec}: missing {missing[:4]}"
        for k in a:
            x, y = np.asarray(a[k], dtype=float), np.asarray(b[k], dtype=float)
            if x.shape != y.shape or np.any(np.abs(x - y) > 1e-12 * (1 + np.abs(x))):
                return f"{sec}[{k}]: {b[k]!r} vs {a[k]!r} (Python definition)"
    if ref["n_state"] != got["n_state"]:
        return f"number of state variables {got['n_state']} vs {ref['n_state']} (Python definition)"
    if isinstance(ref["rows"], dict):
        if not isinstance(got["rows"], dict):
            return f"vectorized run {got['rows']} (works for the Python definition)"
        for k in ref["rows"]:
            x, y = np.asarray(ref["rows"][k]), np.asarray(got["rows"].get(k, []))
            if x.shape != y.shape or np.any(np.abs(x - y) > 1e-12 * (1 + np.abs(x))):
                return f"vectorized rows[{k}]: {y.tolist()} vs {x.tolist()} (Python definition)"
    return None


# ----------------------------------------------------------------------------------------------------------------------
# YAML writer (independent of pyrates.frontend.dict)
# ----------------------------------------------------------------------------------------------------------------------
def op_parts(od):
    eqs = [render_eq(lhs, de, ast, (rest[0] if rest else 0)) for lhs, de, ast, *rest in od["eqs"]]
    for i, text in (od.get("suffix") or {}).items():
        eqs[int(i)] = eqs[int(i)] + text          # (base operators of a `remove` derivation)
    variables = {v: var_decl(kind, val, od.get("out") == v) for v, kind, val in od["vars"]}
    if any(E.uses_time(ast) for _, _, ast, *_ in od["eqs"]):
        variables["t"] = "variable(0.0)"
    return eqs, variables


def rename(ast, old, new):
    if isinstance(ast, list):
        if ast and ast[0] == "var" and ast[1] == old:
            return ["var", new]
        return [rename(x, old, new) for x in ast]
    return ast


def circuit_docs(spec, docs, top="net", nodes=None, edges=None):
    """adds the circuit hierarchy of spec to docs; returns the name of the top template"""
    nodes = spec["nodes"] if nodes is None else nodes
    edges = spec["edges"] if edges is None else edges
    by_scope = {}
    for e in edges:
        d = {"weight": float(e["w"])}
        if e.get("d") is not None:
            d["delay"] = float(e["d"])
        d.update(e.get("ev") or {})
        d.update(edge_source_attributes(spec, e))
        by_scope.setdefault(e.get("scope") or "", []).append([e["s"], e["t"], e.get("et") or None, d])

    def level(prefix, entries, cname):
        doc = {"base": "CircuitTemplate"}
        if all(len(c) == 1 for c, _ in entries):
            doc["nodes"] = {c[0]: nt for c, nt in entries}
        else:
            groups = {}
            for c, nt in entries:
                groups.setdefault(c[0], []).append((c[1:], nt))
            doc["circuits"] = {}
            for g, sub in groups.items():
                sub_name = f"{cname}_{g}"
                level(f"{prefix}/{g}" if prefix else g, sub, sub_name)
                doc["circuits"][g] = sub_name
        if by_scope.get(prefix):
            doc["edges"] = by_scope[prefix]
        docs[cname] = doc
    level("", [(p.split("/"), nt) for p, nt in nodes], top)
    return top


def spec_docs(spec):
    docs = {}
    for o, od in spec["ops"].items():
        eqs, variables = op_parts(od)
        docs[o] = {"base": "OperatorTemplate", "equations": eqs, "variables": variables}
    for ntname, nt in spec["ntypes"].items():
        ov = nt.get("ov") or {}
        if any(ov.get(o) for o in nt["ops"]):
            docs[ntname] = {"base": "NodeTemplate", "operators": {o: dict(ov.get(o, {})) for o in nt["ops"]}}
        else:
            docs[ntname] = {"base": "NodeTemplate", "operators": list(nt["ops"])}
    for etname, et in (spec.get("etypes") or {}).items():
        ov = et.get("ov") or {}
        if any(ov.get(o) for o in et["ops"]):
            docs[etname] = {"base": "EdgeTemplate", "operators": {o: dict(ov.get(o, {})) for o in et["ops"]}}
        else:
            docs[etname] = {"base": "EdgeTemplate", "operators": list(et["ops"])}
    circuit_docs(spec, docs)
    return docs


def split_docs(spec, local_nts, d):
    """the same model spread over two YAML files: lib.yaml holds the operator/edge templates and the node templates that
    are not in local_nts; main.yaml holds the circuits and the node templates in local_nts.  References into the other
    file are fully qualified (<dir>/lib/<name>), references inside main.yaml are bare names.  lib.yaml additionally holds
    DECOYS: templates named like the local node templates of main.yaml but with other values - a bare reference that is
    resolved against the wrong file silently picks those up."""
    import copy
    docs = spec_docs(spec)
    lib, main = {}, {}

    def q(name):
        # (a reference without a dot is completed with the referring file's path; "./dir/file/name" is taken as it is)
        return f"./{d}/lib/{name}"
    for name, doc in docs.items():
        doc = copy.deepcopy(doc)
        base = doc["base"]
        if base in ("OperatorTemplate", "EdgeTemplate"):
            lib[name] = doc
        elif base == "NodeTemplate":
            if name in local_nts:
                ops = doc["operators"]
                decoy = {}
                for o in (ops if isinstance(ops, list) else list(ops)):
                    vals = {}
                    for v, kind, val in spec["ops"][o]["vars"]:
                        if kind in ("state", "const"):
                            vals[v] = round(float((ops.get(o, {}) if isinstance(ops, dict) else {}).get(v, val)) + 0.371, 4)
                    decoy[o] = vals
                lib[name] = {"base": "NodeTemplate", "operators": decoy}
                if isinstance(ops, list):
                    doc["operators"] = [q(o) for o in ops]
                else:
                    doc["operators"] = {q(o): v for o, v in ops.items()}
                main[name] = doc
            else:
                lib[name] = doc
        else:
            if "nodes" in doc:
                doc["nodes"] = {k: (nt if nt in local_nts else q(nt)) for k, nt in doc["nodes"].items()}
            for e in doc.get("edges", []):
                if e[2]:
                    e[2] = q(e[2])
            main[name] = doc
    return lib, main


def dump(docs, path):
    from ruamel.yaml import YAML
    y = YAML(typ="safe", pure=True)
    y.default_flow_style = False
    y.sort_base_mapping_type_on_output = False      # keep the declaration order (operator / node order is part of a model)
    os.makedirs(os.path.dirname(path), exist_ok=True)
    with open(path, "w") as fh:
        y.dump(docs, fh)


# ----------------------------------------------------------------------------------------------------------------------
# derived definitions
# ----------------------------------------------------------------------------------------------------------------------
def base_name_candidates(v, others):
    """identifiers related by containment to the operator's other identifiers / to v"""
    out = []
    for o in others:
        for part in o.split("_"):
            if part and part != o:
                out.append(part)
        out += [o + "2", o + o, o + "_in", o[:-1] if len(o) > 1 else o + "q"]
    out += [v + v, v + "_in", v + "2", "a" + v]
    seen = []
    for c in out:
        if c not in seen and re.fullmatch(r"[A-Za-z][A-Za-z0-9_]*", c) and gen._legal(c):
            seen.append(c)
    return seen


@st.composite
def derivation(draw, spec):
    """for some operators: a chain of (base operator doc, edit dict, variable updates) that must yield the operator"""
    plans = {}
    for o in sorted(spec["ops"]):
        od = spec["ops"][o]
        if o.startswith("eop") or not draw(st.booleans()):
            continue
        steps = []
        cur = copy.deepcopy(od)          # the definition the chain has to arrive at; we go backwards
        kinds = draw(st.lists(st.sampled_from(["rename", "rename", "append", "remove", "add", "defaults"]), min_size=1,
                              max_size=2, unique=True))
        for kind in kinds:
            names = [v for v, _, _ in cur["vars"]]
            if kind == "rename":
                used = sorted(set().union(*[set(E.variables(ast)) for _, _, ast, *_ in cur["eqs"]]) & set(names))
                lhs = {l for l, *_ in cur["eqs"]}
                cand_v = [v for v in used if v not in lhs]
                if not cand_v:
                    continue
                v = draw(st.sampled_from(cand_v))
                # (the base operator's name for the variable stays declared in the derived operator: it must not be the
                #  name of any other variable of the model, or in-node wiring by name would connect the leftover)
                all_names = {x[0] for od2 in spec["ops"].values() for x in od2["vars"]}
                cands = [c for c in base_name_candidates(v, [n for n in names if n != v]) if c not in names and c not in all_names]
                if not cands:
                    continue
                b = draw(st.sampled_from(cands))
                base = copy.deepcopy(cur)
                for eq in base["eqs"]:
                    eq[2] = rename(eq[2], v, b)
                decl = next(x for x in base["vars"] if x[0] == v)
                decl[0] = b
                steps.append({"kind": "rename", "base": base, "edit": {"replace": {b: v}},
                              "vars": {v: var_decl(decl[1], decl[2], cur.get("out") == v)},
                              "contain": any((b in n or n in b) and n != b for n in names + [l for l in lhs])})
                cur = base
            elif kind == "append":
                if len(cur["eqs"]) != 1 or cur["eqs"][0][2][0] != "bin" or cur["eqs"][0][2][1] != "+" or cur.get("suffix"):
                    continue
                base = copy.deepcopy(cur)
                ast = base["eqs"][0][2]
                tail = ast[3]
                base["eqs"][0][2] = ast[2]
                still = set(E.variables(ast[2])) | {base["eqs"][0][0]}
                gone = [x for x in base["vars"] if x[0] not in still]
                if any(x[0] == cur.get("out") for x in gone):
                    continue
                base["vars"] = [x for x in base["vars"] if x[0] in still]
                steps.append({"kind": "append", "base": base, "edit": {"append": "+ (" + E.render(tail) + ")"},
                              "vars": {x[0]: var_decl(x[1], x[2], False) for x in gone}, "contain": False})
                cur = base
            elif kind == "remove":
                base = copy.deepcopy(cur)
                i = draw(st.integers(0, len(base["eqs"]) - 1))
                extra = draw(st.sampled_from(["zq", "zq2", "rq_in"]))
                if extra in names:
                    continue
                # the base equation has an additional summand, written as text behind the rendered equation (a term is
                # only removed at identifier/operator boundaries, so it is written and removed as "+ <name>*0.5" after a
                # space)
                term = "+ " + E.render(["bin", "*", ["var", extra], ["num", 0.5]])
                base.setdefault("suffix", {})[str(i)] = " " + term
                base["vars"].append([extra, "const", 0.25])
                steps.append({"kind": "remove", "base": base, "edit": {"remove": [term]}, "vars": {}, "contain": False})
                cur = base
            elif kind == "add":
                # (an earlier `remove` step keeps a textual summand behind one equation of the current definition: the
                #  bookkeeping of which variables are still used does not see it)
                if len(cur["eqs"]) < 2 or cur.get("suffix"):
                    continue
                base = copy.deepcopy(cur)
                last = base["eqs"].pop()
                still = set().union(*[set(E.variables(ast)) | {l} for l, _, ast, *_ in base["eqs"]])
                gone = [x for x in base["vars"] if x[0] not in still]
                if any(x[0] == cur.get("out") for x in gone) or last[0] in still and False:
                    continue
                base["vars"] = [x for x in base["vars"] if x[0] in still]
                # the variable defined by the added equation may be declared differently in the base (e.g. as input)
                steps.append({"kind": "add", "base": base,
                              "edit": {"add": [render_eq(last[0], last[1], last[2], (last[3] if len(last) > 3 else 0))]},
                              "vars": {x[0]: var_decl(x[1], x[2], cur.get("out") == x[0]) for x in
                                       [y for y in cur["vars"] if y[0] not in still or y[0] == last[0]]},
                              "contain": False})
                for x in base["vars"]:
                    if x[0] == last[0]:
                        x[1] = "const"
                cur = base
            elif kind == "defaults":
                base = copy.deepcopy(cur)
                ch = {}
                for x in base["vars"]:
                    if x[1] in ("const", "state") and draw(st.booleans()):
                        ch[x[0]] = var_decl(x[1], x[2], cur.get("out") == x[0])
                        x[2] = round(float(x[2]) * 0.5 - 0.2, 4)
                if not ch:
                    continue
                steps.append({"kind": "defaults", "base": base, "edit": {}, "vars": ch, "contain": False})
                cur = base
        if steps:
            steps[0]["target"] = copy.deepcopy(od)
            plans[o] = steps
    split_circuit = draw(st.booleans()) and len(spec["nodes"]) >= 2 and all("/" not in p for p, _ in spec["nodes"])
    return {"ops": plans, "split_circuit": bool(split_circuit)}


def derived_docs(spec, plan):
    docs = spec_docs(spec)
    for o, steps in plan["ops"].items():
        # steps[0] is the last edit (arrives at o), steps[-1].base is the root definition
        n = len(steps)
        for i, stp in enumerate(steps):
            base_name = f"{o}_b{i}"
            doc = {"base": base_name}
            if stp["edit"]:
                doc["equations"] = copy.deepcopy(stp["edit"])
            if stp["vars"]:
                doc["variables"] = dict(stp["vars"])
            docs[o if i == 0 else f"{o}_b{i - 1}"] = doc
        eqs, variables = op_parts(steps[-1]["base"])
        docs[f"{o}_b{n - 1}"] = {"base": "OperatorTemplate", "equations": eqs, "variables": variables}
    if plan.get("split_circuit"):
        last = spec["nodes"][-1][0]
        keep_e = [e for e in spec["edges"] if not (e["s"].startswith(last + "/") or e["t"].startswith(last + "/"))]
        add_e = [e for e in spec["edges"] if e not in keep_e]
        if [e for e in spec["edges"]] == keep_e + add_e:      # edge order is part of the model (in_edge numbering)
            circuit_docs(spec, docs, top="net_base", nodes=spec["nodes"][:-1], edges=keep_e)
            doc = {"base": "net_base", "nodes": {last: spec["nodes"][-1][1]}}
            if add_e:
                doc["edges"] = [[e["s"], e["t"], e.get("et") or None,
                                 dict({"weight": float(e["w"])}, **(e.get("ev") or {}), **edge_source_attributes(spec, e))]
                                for e in add_e]
            docs["net"] = doc
    return docs


def dict_decl(decl):
    """'output(0.3)' / 1.5 / 'input(0.0)' -> the explicit dictionary form of a variable declaration"""
    if isinstance(decl, (int, float)):
        return {"vtype": "constant", "value": float(decl), "dtype": "float", "shape": (1,)}
    kind, val = decl.split("(")
    vt = {"output": "output", "variable": "state_var", "input": "input"}[kind]
    return {"vtype": vt, "value": float(val[:-1]), "dtype": "float", "shape": (1,)}


def derived_python(spec, plan, use_dicts=False, changed=None):
    """the same derivations through the Python classes; `changed` collects base templates that a derivation altered"""
    from pyrates import CircuitTemplate, NodeTemplate, OperatorTemplate
    if any(e.get("et") for e in spec["edges"]):
        return None
    conv = (lambda d: {k: dict_decl(v) for k, v in d.items()}) if use_dicts else (lambda d: dict(d))
    ops = {}
    for o, od in spec["ops"].items():
        if o in plan["ops"]:
            steps = plan["ops"][o]
            eqs, variables = op_parts(steps[-1]["base"])
            t = OperatorTemplate(name=o, equations=eqs, variables=conv(variables), path=None)
            for stp in reversed(steps):
                before = (list(t.equations), copy.deepcopy(t.variables))
                t2 = t.update_template(equations=copy.deepcopy(stp["edit"]) or None, variables=conv(stp["vars"]) or None)
                if changed is not None and (list(t.equations), t.variables) != before:
                    changed.append((o, stp["kind"], before[1], copy.deepcopy(t.variables)))
                t = t2
            ops[o] = t
        else:
            eqs, variables = op_parts(od)
            ops[o] = OperatorTemplate(name=o, equations=eqs, variables=variables, path=None)
    nts = {}
    for ntname, nt in spec["ntypes"].items():
        ov = nt.get("ov") or {}
        if any(ov.get(o) for o in nt["ops"]):
            nts[ntname] = NodeTemplate(name=ntname, path=None, operators={ops[o]: dict(ov.get(o, {})) for o in nt["ops"]})
        else:
            nts[ntname] = NodeTemplate(name=ntname, path=None, operators=[ops[o] for o in nt["ops"]])
    if all("/" not in p for p, _ in spec["nodes"]):
        edges = [(e["s"], e["t"], None, {"weight": float(e["w"])}) for e in spec["edges"]]
        if plan.get("split_circuit"):
            last = spec["nodes"][-1][0]
            keep = [e for e in edges if not (e[0].startswith(last + "/") or e[1].startswith(last + "/"))]
            add = [e for e in edges if e not in keep]
            if edges == keep + add:
                base = CircuitTemplate(name="net", path=None, nodes={p: nts[nt] for p, nt in spec["nodes"][:-1]}, edges=keep)
                return base.update_template(nodes={last: nts[spec["nodes"][-1][1]]}, edges=add or None)
        return CircuitTemplate(name="net", path=None, nodes={p: nts[nt] for p, nt in spec["nodes"]}, edges=edges)
    return None


class DefinitionsArm(Arm):
    name = "definitions"
    budget = {"quick": 320, "thorough": 4000}
    min_per_shard = 10
    case_timeout = 300
    required_labels = ("derived:rename", "derived:append", "derived:remove", "derived:add", "derived:defaults",
                       "derived:circuit", "overrides", "hierarchy", "containment", "same_node_template_names",
                       "edge_template", "edge_template_shared", "edge_attribute_values", "split_files", "split_local_and_foreign_nodes")

    def strategy(self, ctx):
        @st.composite
        def case(draw):
            spec = draw(gen.model_spec({"leak": True, "max_types": 2, "max_ops": 2, "max_nodes": 4, "min_nodes": 1,
                                        "max_edges": 4, "expr_depth": 2, "depths": [0, 0, 0, 1, 2], "collision": False,
                                        "max_alg": 1, "funcs": ["tanh", "sigmoid", "exp", "sin"], "pow": True}))
            if draw(st.integers(0, 2)) == 0:
                spec = draw(gen.with_edge_templates(spec))
            plan = draw(derivation(spec))
            nts = sorted(spec["ntypes"])
            local = sorted(draw(st.sets(st.sampled_from(nts), max_size=len(nts)))) if draw(st.booleans()) else None
            return {"spec": spec, "plan": plan, "same_names": draw(st.sampled_from([False, False, True])),
                    "dict_decl": draw(st.booleans()), "split": local,
                    "rewrite_style": draw(st.sampled_from([None, None, "plain", "dot_slash", "dotted_dir", "dotted"])),
                    # edge weights of the Python definition given as numpy scalars (they must survive to_yaml)
                    "np_weights": draw(st.sampled_from([False, False, False, True]))}
        return case()

    def valid(self, case):
        # (the reducer must not simplify an operator that a derivation plan was generated for)
        for o, steps in case["plan"]["ops"].items():
            if case["spec"]["ops"].get(o) != steps[0].get("target"):
                return False
        return True

    def run(self, case, ctx):
        from .. import isolate
        from pyrates import CircuitTemplate
        res = CaseResult()
        from ..findings import excluded_by
        ex = excluded_by("C15", case, ctx)
        if ex:
            res.excluded = ex
            return res
        spec, plan = case["spec"], case["plan"]
        rm = RefModel(spec)
        sp = rm.state_paths
        isolate.reset()
        lab = []
        if any(nt.get("ov") and any(nt["ov"].values()) for nt in spec["ntypes"].values()):
            lab.append("overrides")
        if any("/" in p for p, _ in spec["nodes"]):
            lab.append("hierarchy")
        for o, steps in plan["ops"].items():
            for s_ in steps:
                lab.append("derived:" + s_["kind"])
                if s_.get("contain"):
                    lab.append("containment")
        if plan.get("split_circuit"):
            lab.append("derived:circuit")
        if case.get("dict_decl") and plan["ops"]:
            lab.append("dict_declarations")
        used_et = [e["et"] for e in spec["edges"] if e.get("et")]
        if used_et:
            lab.append("edge_template")
            if len(used_et) != len(set(used_et)):
                lab.append("edge_template_shared")
            if any(e.get("ev") for e in spec["edges"]):
                lab.append("edge_attribute_values")
        if case.get("np_weights") and spec["edges"]:
            lab.append("numpy_weights")
        res.labels = sorted(set(lab))
        res.nontrivial = bool(lab)
        def build_P():
            P_ = build_circuit(dict(spec, np_weights=True) if case.get("np_weights") else spec, name="net")
            if case.get("same_names"):
                # different NodeTemplate objects may carry the same template name
                def ren(c):
                    for n in c.nodes.values():
                        n.name = "pop"
                    for sub in c.circuits.values():
                        ren(sub)
                ren(P_)
            return P_
        if case.get("same_names") and len(spec["ntypes"]) > 1:
            res.labels = sorted(set(res.labels) | {"same_node_template_names"})
        try:
            P = build_P()
            ref = observe(P, sp)
        except HarnessError:
            raise
        except Exception as e:
            res.rejected = f"python definition raises: {type(e).__name__}"
            return res
        # vectorized rows are only compared when the Python definition itself follows the reference recurrence (the
        # vectorisation defects listed for C04 depend on node order / grouping, which definitions may legitimately change)
        if isinstance(ref["rows"], dict):
            try:
                rr = rm.simulate(4, DT)[:4]
                a = np.column_stack([ref["rows"][p] for p in sp])
                if a.shape != rr.shape or not np.all(np.isfinite(rr)) or np.max(np.abs(a - rr)) > 1e-8 * (1 + np.max(np.abs(rr))):
                    ref["rows"] = None
            except Exception:
                ref["rows"] = None
        if isinstance(ref["rows"], dict):
            res.labels = sorted(set(res.labels) | {"vectorized_rows_judged"})
        d = f"c15_{os.getpid()}"
        import shutil
        shutil.rmtree(d, ignore_errors=True)
        variants = []
        try:
            # (Y) harness-written YAML
            dump(spec_docs(spec), f"{d}/plain.yaml")
            variants.append(("yaml", lambda: CircuitTemplate.from_yaml(f"{d}/plain/net")))
            # (S) the same templates spread over two files that refer to one another
            if case.get("split") is not None:
                lib, main = split_docs(spec, set(case["split"]), d)
                dump(lib, f"{d}/lib.yaml")
                dump(main, f"{d}/main.yaml")
                variants.append(("yaml-split", lambda: CircuitTemplate.from_yaml(f"{d}/main/net")))
                res.labels = sorted(set(res.labels) | {"split_files"} | ({"split_local_and_foreign_nodes"} if
                                    0 < len(set(case["split"]) & {nt for _, nt in spec["nodes"]}) < len({nt for _, nt in spec["nodes"]}) else set()))
            # (R) round trip
            def rt():
                P2 = build_P()
                P2.to_yaml(f"{d}/rt.yaml")
                isolate.reset(remove_files=False)
                return CircuitTemplate.from_yaml(f"{d}/rt/net")
            variants.append(("roundtrip", rt))
            # (W) write - load - write - load on ONE file without any cache reset in between: the second load must see the
            # file as it is now (the first version has other parameter values and weights), whatever notation names it
            if case.get("rewrite_style"):
                sty = case["rewrite_style"]
                sub = f"{d}/v.1" if sty == "dotted_dir" else d
                ref_path = {"plain": f"{sub}/rw/net", "dot_slash": f"./{sub}/rw/net", "dotted_dir": f"{sub}/rw/net",
                            "dotted": f"{sub}.rw.net"}[sty]
                def rw():
                    os.makedirs(sub, exist_ok=True)
                    old = copy.deepcopy(spec)
                    for o in old["ops"].values():
                        for v in o["vars"]:
                            if v[1] in ("const", "state"):
                                v[2] = round(float(v[2]) * 0.5 + 0.3, 4)
                    for e in old["edges"]:
                        e["w"] = round(float(e["w"]) * -0.5 + 0.25, 4)
                    build_circuit(old, name="net").to_yaml(f"{sub}/rw.yaml")
                    first = CircuitTemplate.from_yaml(ref_path)
                    build_P().to_yaml(f"{sub}/rw.yaml")
                    return CircuitTemplate.from_yaml(ref_path)
                variants.append(("rewrite:" + sty, rw))
                res.labels = sorted(set(res.labels) | {"rewrite:" + sty})
            if plan["ops"] or plan.get("split_circuit"):
                dump(derived_docs(spec, plan), f"{d}/derived.yaml")
                variants.append(("derived-yaml", lambda: CircuitTemplate.from_yaml(f"{d}/derived/net")))
                changed = []
                variants.append(("derived-python", lambda: derived_python(spec, plan, bool(case.get("dict_decl")), changed)))
            for vname, mk in variants:
                isolate.reset(remove_files=False)
                try:
                    with warnings.catch_warnings():
                        warnings.simplefilter("ignore")
                        circ = mk()
                    if circ is None:
                        continue
                    got = observe(circ, sp)
                except HarnessError:
                    raise
                except Exception as e:
                    kinds = sorted({s_["kind"] for st_ in plan["ops"].values() for s_ in st_}) if vname.startswith("derived") else []
                    res.violate(exc_bucket(f"raises:{vname}:{'+'.join(kinds)}", e),
                                f"{vname} definition raises although the Python definition works: {short_exc(e)}")
                    continue
                if vname == "derived-python" and changed:
                    o, kind, b0, b1 = changed[0]
                    res.violate(f"derivation-changed-base:{kind}", f"update_template ({kind}) on operator {o} changed the base "
                                                                   f"template's variables from {b0} to {b1}")
                why = compare(ref, got)
                if why:
                    kinds = sorted({s_["kind"] for st_ in plan["ops"].values() for s_ in st_}) if vname.startswith("derived") else []
                    res.violate(f"differs:{vname}:{'+'.join(kinds)}:{why.split('[')[0].split(':')[0]}",
                                f"{vname} definition: {why}")
        finally:
            shutil.rmtree(d, ignore_errors=True)
        return res

    def sample(self, case):
        return {"nodes": case["spec"]["nodes"], "derived": {o: [s_["kind"] for s_ in st_] for o, st_ in case["plan"]["ops"].items()},
                "split_circuit": case["plan"].get("split_circuit")}


# ----------------------------------------------------------------------------------------------------------------------
# edits arm
# ----------------------------------------------------------------------------------------------------------------------
IDENTS = ["r", "rr", "r_in", "r_in0", "m_in", "m_in2", "x", "xs", "x_v1", "a", "ab", "abc", "tau", "tau1", "tau_e", "e",
          "k", "kk", "u", "in", "v", "V_e", "I_ext", "eta", "h", "m"]
FUNCS = ["sin", "exp", "tanh", "sigmoid"]


@st.composite
def eq_string(draw):
    def atom():
        k = draw(st.integers(0, 9))
        if k <= 5:
            return draw(st.sampled_from(IDENTS))
        if k == 6:
            return draw(st.sampled_from(["2.0", "1e5", "0.5", "3", "1.5e-3", "2."]))
        if k == 7:
            return draw(st.sampled_from(FUNCS)) + "(" + expr(1) + ")"
        if k == 8:
            return draw(st.sampled_from(IDENTS)) + "[" + draw(st.sampled_from(["0", "1", "k", ":"])) + "]"
        return "(" + expr(1) + ")"

    def expr(depth):
        n = draw(st.integers(1, 4 if depth == 0 else 2))
        parts = [atom()]
        for _ in range(n - 1):
            op = draw(st.sampled_from(["+", "-", "*", "/", "^", "**", " + ", " - ", " * ", "*-", " > ", "@"]))
            parts.append(op)
            parts.append(atom())
        return "".join(parts)
    lhs_v = draw(st.sampled_from(IDENTS))
    form = draw(st.integers(0, 3))
    lhs = [f"d/dt * {lhs_v}", f"{lhs_v}'", lhs_v, f"d/dt*{lhs_v}"][form]
    return f"{lhs} = {expr(0)}"


def oracle_replace(eq, term, new, rhs_only=False, lhs_only=False):
    pat = ("(?<![%s])" % IDC if re.match("[%s]" % IDC, term[0]) else "") + re.escape(term) + \
          ("(?![%s])" % IDC if re.match("[%s]" % IDC, term[-1]) else "")
    first_eq = eq.find("=")

    def sub(m):
        on_rhs = first_eq != -1 and m.start() > first_eq
        if (rhs_only and not on_rhs) or (lhs_only and on_rhs):
            return m.group(0)
        return new
    return re.sub(pat, sub, eq)


class EditsArm(Arm):
    name = "edits"
    budget = {"quick": 6000, "thorough": 100000}
    min_per_shard = 300
    required_labels = ("longer_identifier_present", "rhs_only", "lhs_only", "update_template")
    #: (shards, executions per shard) of coverage-guided fuzzing (atheris) over the same strategy and oracle
    fuzz = {"quick": (2, 1500), "thorough": (8, 40000)}
    fuzz_modules = ("pyrates.backend.parser", "pyrates.frontend.template.operator")

    def strategy(self, ctx):
        @st.composite
        def case(draw):
            eqs = draw(st.lists(eq_string(), min_size=1, max_size=3))
            n_rep = draw(st.integers(1, 2))
            terms = draw(st.lists(st.sampled_from(IDENTS), min_size=n_rep, max_size=n_rep, unique=True))
            news = [draw(st.sampled_from(["X9", "(m_in + u)", "q", "rr", "r", "2.0*zz", "x_new"])) for _ in terms]
            return {"eqs": eqs, "replace": [[t, n] for t, n in zip(terms, news)],
                    "mode": draw(st.sampled_from(["plain", "plain", "rhs_only", "lhs_only", "update_template"])),
                    "remove": draw(st.sampled_from([None, None, "ident", "tail"])),
                    "append": draw(st.sampled_from([None, "+ zz*2.0"])),
                    "prepend": draw(st.sampled_from([None, None, "0.0*q +"])),
                    "add": draw(st.sampled_from([None, "zz = 2.0*r"]))}
        return case()

    def run(self, case, ctx):
        from pyrates.backend.parser import replace
        res = CaseResult()
        eqs = case["eqs"]
        lab = [case["mode"]]
        longer = False
        for t, _ in case["replace"]:
            for eq in eqs:
                for m in re.finditer(re.escape(t), eq):
                    a = eq[m.start() - 1] if m.start() > 0 else " "
                    b = eq[m.end()] if m.end() < len(eq) else " "
                    if re.match("[%s]" % IDC, a) or re.match("[%s]" % IDC, b):
                        longer = True
        if longer:
            lab.append("longer_identifier_present")
        res.labels = lab
        res.nontrivial = longer
        if case["mode"] != "update_template":
            t, new = case["replace"][0]
            kw = {"rhs_only": case["mode"] == "rhs_only", "lhs_only": case["mode"] == "lhs_only"}
            for eq in eqs:
                try:
                    got = replace(eq, t, new, **kw)
                except Exception as e:
                    res.violate(exc_bucket("replace-raises", e), f"replace({eq!r}, {t!r}, {new!r}, {kw}): {short_exc(e)}")
                    return res
                want = oracle_replace(eq, t, new, **kw)
                if got != want:
                    res.violate(f"replace-differs:{case['mode']}", f"replace({eq!r}, {t!r}, {new!r}, {kw}) = {got!r}, "
                                                                   f"whole-identifier replacement gives {want!r}")
                    return res
            return res
        from pyrates import OperatorTemplate
        edit = {"replace": {t: n for t, n in case["replace"]}}
        want = list(eqs)
        for t, n in case["replace"]:
            want = [oracle_replace(e, t, n) for e in want]
        if case["remove"]:
            # remove a whole identifier that occurs in the first equation (if any) / a tail term
            ids = re.findall(r"[A-Za-z_][%s]*" % IDC, want[0].split("=", 1)[1])
            if case["remove"] == "ident" and ids:
                edit["remove"] = [ids[-1]]
                want = [oracle_replace(e, ids[-1], "") for e in want]
            elif case["remove"] == "tail":
                edit["remove"] = "* zq9"
                want = [oracle_replace(e, "* zq9", "") for e in want]
        if case["append"]:
            edit["append"] = case["append"]
            want = [f"{e} {case['append']}" for e in want]
        if case["prepend"]:
            edit["prepend"] = case["prepend"]
            want = [f"{case['prepend']} {e}" for e in want]
        if case["add"]:
            edit["add"] = [case["add"]]
            want = want + [case["add"]]
        variables = {i: 0.5 for i in IDENTS + ["zz", "q", "X9", "x_new", "zq9"]}
        try:
            t0 = OperatorTemplate(name="opx", equations=list(eqs), variables=dict(variables), path=None)
            t1 = t0.update_template(equations=copy.deepcopy(edit))
            got = list(t1.equations)
        except Exception as e:
            res.violate(exc_bucket("update_template-raises", e), f"update_template(equations={edit}) on {eqs}: {short_exc(e)}")
            return res
        if got != want:
            res.violate("update_template-differs", f"update_template(equations={edit}) on {eqs} gives {got}, expected {want}")
        if list(t0.equations) != list(eqs):
            res.violate("update_template-changed-base", f"base template equations changed to {t0.equations}")
        return res


ARMS = [DefinitionsArm(), EditsArm()]
