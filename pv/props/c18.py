"""C18 - the auto-07p export addresses every parameter and state consistently."""
import glob
import importlib
import os
import re
import sys
import warnings

import numpy as np
from hypothesis import strategies as st

from .. import expr as E
from .. import gen
from ..arm import Arm
from ..common import CaseResult, HarnessError, case_hash, exc_bucket, short_exc
from ..findings import excluded_by
from ..model import RefModel, build_circuit

PROPERTY = {
    "id": "C18",
    "rule": ("Hypothesis-generated scalar single-node models with 1-20 parameters (weighted towards 8-14 to cross the "
             "reserved slots) and 1-3 state variables, declaration order drawn independently of the order of first use, "
             "1-3 auto-07p scenarios; get_run_func(backend='fortran', auto=True) writes <file>.f90 and c.<scenario> and "
             "builds the module with f2py. Checked on the emitted text: parnames/unames/NDIM/NPAR of every c.* file, the "
             "'call vfx(args(..))' forwarding, the STPNT lines and the DFDP column indices use one and the same slot per "
             "parameter; slots strictly increase in declaration order, are distinct and avoid 11..14; NPAR >= max slot; "
             "NDIM = number of states. Checked on the compiled module: stpnt fills PAR[slot(name)] with the declared "
             "value and U with the initial state; func(U, PAR') at 2 random (U, PAR') equals the reference vector field "
             "with the values matched by name; DFDU/DFDP equal 5-point central differences of func. Non-trivial = >=10 "
             "parameters or declaration order != order of first use; distinct = canonical JSON of the case."),
    "assumptions": [
        "auto-07p itself is not installed: everything PyRates emits for it is checked, not a continuation run",
        "slot 10 may or may not be used (the implementation skips 10..14); 11..14 must never be used",
    ],
}

SCENARIOS = ["ivp", "eq", "lc", "bvp", "hom"]


@st.composite
def auto_case(draw):
    n_par = draw(st.one_of(st.integers(1, 20), st.integers(8, 14), st.integers(9, 12)))
    n_state = draw(st.integers(1, 3))
    pool = [n for n in gen.PLAIN_NAMES if n not in ("t",)]
    if draw(st.integers(0, 9)) > 0:
        # (names that Fortran cannot tell from the constants E, PI, I are the shape of the listed finding F-02f)
        pool = [n for n in pool if n.lower() not in ("e", "pi", "i")]
    names = draw(st.lists(st.sampled_from(pool), min_size=n_par + n_state, max_size=n_par + n_state, unique=True))
    states, params = names[:n_state], names[n_state:]
    eqs = []
    unused = list(params)
    for x in states:
        vs = states + params
        ast, _ = draw(E.expr_strategy(vs, max_depth=3, funcs=["tanh", "exp", "sin", "cos"], allow_pow=True,
                                      consts=False))
        ast = ["bin", "+", ["neg", ["var", x]], ast]
        eqs.append([x, True, ast, draw(st.integers(0, 1))])
    used = set()
    for e in eqs:
        used |= E.variables(e[2])
    k = 0
    for p in params:
        if p not in used:
            e = eqs[k % len(eqs)]
            form = draw(st.integers(0, 2))
            term = ["var", p] if form == 0 else (["bin", "*", ["var", p], ["var", states[k % n_state]]] if form == 1
                                                 else ["call", "tanh", ["bin", "*", ["var", p], ["var", states[0]]]])
            e[2] = ["bin", "+", e[2], term]
            k += 1
    vars_ = [[x, "state", round(0.2 + 0.13 * i, 3)] for i, x in enumerate(states)] + \
            [[p, "const", round(0.3 + 0.07 * i, 3)] for i, p in enumerate(params)]
    # one case in four: parameters that only the integral conditions of a boundary value problem use (par_<name> tokens)
    icond = []
    if draw(st.integers(0, 3)) == 0:
        for k in range(draw(st.integers(1, 2))):
            nm = next(n for n in ("cnd0", "cnd1", "cnd2") if n not in names and n not in [c[1] for c in icond])
            vars_.append([nm, "const", round(0.91 + 0.03 * k, 3)])
            icond.append([states[k % n_state], nm])
    vars_ = list(draw(st.permutations(vars_)))
    scen = draw(st.lists(st.sampled_from(SCENARIOS), min_size=1, max_size=3, unique=True))
    fl = st.floats(-1.2, 1.2, allow_nan=False).map(lambda v: round(v, 3))
    probes = draw(st.lists(st.lists(fl, min_size=n_state + n_par + 2, max_size=n_state + n_par + 2), min_size=2, max_size=2))
    return {"spec": {"ops": {"op0": {"vars": [list(v) for v in vars_], "eqs": eqs, "out": states[0]}},
                     "ntypes": {"nt0": {"ops": ["op0"], "ov": {}}}, "nodes": [["p", "nt0"]], "edges": [], "etypes": {}},
            "scenarios": scen, "probes": probes, "icond": icond}


def first_use_order(spec):
    od = spec["ops"]["op0"]
    params = [v[0] for v in od["vars"] if v[1] == "const"]
    order = []
    for e in od["eqs"]:
        txt = E.render(e[2])
        toks = re.findall(r"[A-Za-z_][A-Za-z_0-9]*", txt)
        for t in toks:
            if t in params and t not in order:
                order.append(t)
    return order


def unwrap(src):
    return re.sub(r"&\s*\n\s*&?", "", src)


class AutoArm(Arm):
    name = "auto"
    budget = {"quick": 160, "thorough": 1600}
    min_per_shard = 2
    case_timeout = 300
    required_labels = ("n_par>=10", "decl_order!=first_use", "multi_scenario", "condition_only_parameters")

    def strategy(self, ctx):
        return auto_case()

    def run(self, case, ctx):
        from .. import isolate
        res = CaseResult()
        ex = excluded_by("C18", case, ctx)
        if ex:
            res.excluded = ex
            return res
        spec = case["spec"]
        od = spec["ops"]["op0"]
        decl_params = [v[0] for v in od["vars"] if v[1] == "const"]
        states = [v[0] for v in od["vars"] if v[1] == "state"]
        values = {v[0]: v[2] for v in od["vars"]}
        lab = []
        if len(decl_params) >= 10:
            lab.append("n_par>=10")
        if first_use_order(spec) != decl_params:
            lab.append("decl_order!=first_use")
        if len(case["scenarios"]) > 1:
            lab.append("multi_scenario")
        res.labels = lab
        res.nontrivial = len(decl_params) >= 10 or first_use_order(spec) != decl_params
        fname = "pvauto_" + case_hash(case)
        isolate.reset()
        for f in glob.glob("c.*") + glob.glob(fname + "*"):
            try:
                os.remove(f)
            except OSError:
                pass
        circ = build_circuit(spec)
        try:
            with warnings.catch_warnings():
                warnings.simplefilter("ignore")
                out = circ.get_run_func("vfx", step_size=1e-3, file_name=fname, backend="fortran",
                                        float_precision="float64", auto=True, vectorize=False, solver="scipy",
                                        auto_constants=tuple(case["scenarios"]), verbose=False, in_place=False,
                                        **({"integral_constraints": [f"u_{x} - par_{c}" for x, c in case["icond"]]}
                                           if case.get("icond") else {}))
        except HarnessError:
            raise
        except Exception as e:
            res.violate(exc_bucket("auto-export-raises", e), f"{len(decl_params)} parameters, scenarios {case['scenarios']}: {short_exc(e)}")
            return res
        try:
            src = unwrap(open(fname + ".f90").read())
        except OSError as e:
            res.violate("no-fortran-file", str(e))
            return res
        if "F-18a" in ctx.active_findings:
            # listed finding F-18a (single precision literals in generated Fortran): sympy may create new literals
            # (exp(0.75+w) -> 2.117*exp(w)), so the shape is recognised on the emitted routine itself
            body = src[src.find("subroutine vfx"):src.find("end subroutine")]
            lits = re.findall(r"(?<![\w.])(\d+\.\d*(?:[eE][-+]?\d+)?|\.\d+(?:[eE][-+]?\d+)?)(?![\w.]|d[-+]?\d)", body)
            if any(float(np.float32(float(x))) != float(x) for x in lits):
                res.excluded = "F-18a"
                return res
        # ---- c.* files ---------------------------------------------------------------------------------
        slots = None
        for sc in case["scenarios"]:
            try:
                ctext = open(f"c.{sc}").read()
            except OSError:
                res.violate("missing-constants-file", f"c.{sc} was not written (files: {sorted(glob.glob('c.*'))})")
                return res
            m = re.search(r"parnames\s*=\s*\{([^}]*)\}", ctext)
            u = re.search(r"unames\s*=\s*\{([^}]*)\}", ctext)
            nd = re.search(r"NDIM\s*=\s*(\d+)", ctext)
            npar = re.search(r"NPAR\s*=\s*(\d+)", ctext)
            if not (m and u and nd and npar):
                res.violate("constants-file-format", f"c.{sc} lacks parnames/unames/NDIM/NPAR")
                return res
            pn = {name: int(i) for i, name in re.findall(r"(\d+)\s*:\s*'([^']+)'", m.group(1))}
            un = {name: int(i) for i, name in re.findall(r"(\d+)\s*:\s*'([^']+)'", u.group(1))}
            if slots is None:
                slots, ustate = pn, un
            elif pn != slots or un != ustate:
                res.violate("scenario-files-disagree", f"c.{sc}: parnames {pn} vs {slots}")
                return res
            if int(nd.group(1)) != len(states):
                res.violate("NDIM", f"c.{sc}: NDIM={nd.group(1)} but the model has {len(states)} state variables")
                return res
            if pn and int(npar.group(1)) < max(pn.values()):
                res.violate("NPAR", f"c.{sc}: NPAR={npar.group(1)} < largest parameter slot {max(pn.values())}")
                return res
        from ..finding_predicates import _effective_vars
        effective = set()
        for e in od["eqs"]:
            effective |= _effective_vars(e[2])
        needed = [p for p in decl_params if p in effective]
        if not set(needed) <= set(slots) or not set(slots) <= set(decl_params):
            res.violate("parnames-set", f"parnames {sorted(slots)} vs declared parameters {sorted(decl_params)} (parameters "
                                        f"that influence the equations: {sorted(needed)})")
            return res
        decl_params = [p for p in decl_params if p in slots]   # parameters that cancel out may be dropped
        cond_only = {c for _, c in case.get("icond") or []}
        if cond_only:
            res.labels.append("condition_only_parameters")
            if not cond_only <= set(slots):
                res.violate("parnames-set", f"parameters {sorted(cond_only - set(slots))} of the integral conditions have no slot")
                return res
        order = [slots[p] for p in decl_params]
        if len(set(order)) != len(order):
            res.violate("slot-order", f"slots {list(zip(decl_params, order))} are not pairwise distinct")
            return res
        ordered = decl_params
        if cond_only and "F-18c" in ctx.active_findings:
            # listed finding F-18c: parameters that only the conditions use are appended behind the others; the order
            # of the remaining parameters (and every other relation below) is still checked
            ordered = [p for p in decl_params if p not in cond_only]
        if [slots[p] for p in ordered] != sorted(slots[p] for p in ordered):
            res.violate("slot-order", f"slots in declaration order {list(zip(decl_params, order))} are not strictly increasing")
            return res
        if any(11 <= s <= 14 for s in order):
            res.violate("reserved-slot", f"a parameter uses a reserved slot 11..14: {list(zip(decl_params, order))}")
            return res
        if set(ustate) != set(states) or sorted(ustate.values()) != list(range(1, len(states) + 1)):
            res.violate("unames", f"unames {ustate} vs states {states}")
            return res
        # ---- forwarding call, STPNT, DFDP -------------------------------------------------------------
        sig = re.search(r"subroutine vfx\(([^)]*)\)", src)
        call = re.search(r"call vfx\((.*?)\)\s*\n", src, re.S)
        if not sig or not call:
            res.violate("fortran-format", "no 'subroutine vfx(' / 'call vfx(' line")
            return res
        sargs = [a.strip() for a in sig.group(1).split(",")]
        cargs = [a.strip() for a in re.findall(r"args\(\s*\d+\s*\)|\by\b|\bdy\b", call.group(1))]
        if len(cargs) != len(sargs):
            res.violate("forwarding-arity", f"vfx takes {sargs} but is called with {cargs}")
            return res
        for sa, ca in zip(sargs, cargs):
            if sa in slots:
                mm = re.match(r"args\(\s*(\d+)\s*\)", ca)
                if not mm or int(mm.group(1)) != slots[sa]:
                    res.violate("forwarding-slot", f"argument {sa} of vfx receives {ca}, parnames says slot {slots[sa]}")
                    return res
        st_block = src[src.find("subroutine stpnt"):]
        for sl, val, nm in re.findall(r"args\((\d+)\)\s*=\s*([-+0-9.eEdD]+)\s*!\s*(\S+)", st_block):
            if nm in slots:
                if int(sl) != slots[nm]:
                    res.violate("stpnt-slot", f"STPNT writes {nm} to args({sl}), parnames says {slots[nm]}")
                    return res
                if abs(float(val.replace("d", "e").replace("D", "e")) - values[nm]) > 1e-12:
                    res.violate("stpnt-value", f"STPNT sets {nm}={val}, declared {values[nm]}")
                    return res
        dfdp_cols = {int(c) for c in re.findall(r"dfdp\(\s*\d+\s*,\s*(\d+)\s*\)", src)}
        if not dfdp_cols <= set(slots.values()):
            res.violate("dfdp-column", f"DFDP writes columns {sorted(dfdp_cols - set(slots.values()))} that are no parameter slot "
                                       f"({slots})")
            return res
        # ---- compiled module ------------------------------------------------------------------------
        importlib.invalidate_caches()
        try:
            if os.getcwd() not in sys.path:
                sys.path.insert(0, os.getcwd())
            mod = importlib.import_module(fname)
        except Exception as e:
            res.rejected = f"compiled module not importable: {type(e).__name__}"
            return res
        npar_tot = max(20, max(slots.values()) + 3)
        U = np.zeros(len(states))
        PAR = np.zeros(npar_tot)
        try:
            mod.stpnt(U, PAR, 0.0)
        except Exception as e:
            res.violate(exc_bucket("stpnt-call-raises", e), short_exc(e))
            return res
        for p in decl_params:
            if abs(PAR[slots[p] - 1] - values[p]) > 1e-12:
                res.violate("stpnt-runtime", f"stpnt: PAR({slots[p]}) = {PAR[slots[p] - 1]} but {p} is declared {values[p]}")
                return res
        for x in states:
            if abs(U[ustate[x] - 1] - values[x]) > 1e-12:
                res.violate("stpnt-runtime", f"stpnt: U({ustate[x]}) = {U[ustate[x] - 1]} but {x} starts at {values[x]}")
                return res
        rm = RefModel(spec)
        n = len(states)

        def call_func(u, par, ijac=0):
            dfdu = np.zeros((n, n), order="F")
            dfdp = np.zeros((n, npar_tot), order="F")
            dy = mod.func(np.array(u, dtype=float), np.zeros(1, dtype=np.int32), np.array(par, dtype=float), ijac, dfdu, dfdp)
            return np.array(dy, dtype=float), dfdu, dfdp
        for probe in case["probes"]:
            u = np.zeros(n)
            par = np.array(PAR)
            yd, pd_ = {}, {}
            for i, x in enumerate(states):
                u[ustate[x] - 1] = probe[i]
                yd[f"p/op0/{x}"] = probe[i]
            for j, p in enumerate(decl_params):
                par[slots[p] - 1] = probe[n + j] + 1.5
                pd_[f"p/op0/{p}"] = probe[n + j] + 1.5
            try:
                dy, dfdu, dfdp = call_func(u, par, 2)
            except Exception as e:
                res.violate(exc_bucket("func-call-raises", e), short_exc(e))
                return res
            ref = rm.vf(yd, pd_)
            for x in states:
                rv, mag = ref[f"p/op0/{x}"]
                if not np.isfinite(rv) or abs(rv) > 1e6:
                    continue
                if not abs(dy[ustate[x] - 1] - rv) <= 1e-9 * mag + 1e-11:
                    res.violate("exported-vector-field", f"func: d/dt {x} = {dy[ustate[x] - 1]!r}, model says {rv!r} with "
                                                         f"parameters matched by name via parnames {slots}")
                    return res
            # DFDU / DFDP against central differences of func
            def fu(z):
                return call_func(z, par, 0)[0]

            def fp(z):
                return call_func(u, z, 0)[0]
            from .c12 import fd5
            with np.errstate(all="ignore"):
                Ju, Ju2 = fd5(fu, u, 1e-3), fd5(fu, u, 5e-4)
                Jp, Jp2 = fd5(fp, par, 1e-3), fd5(fp, par, 5e-4)
            smu = np.abs(Ju - Ju2) <= 1e-7 * (1 + np.abs(Ju))
            if np.any(smu & ~(np.abs(dfdu - Ju) <= 1e-6 * (1 + np.abs(Ju)))):
                i, j = [int(v[0]) for v in np.where(smu & ~(np.abs(dfdu - Ju) <= 1e-6 * (1 + np.abs(Ju))))]
                res.violate("DFDU", f"DFDU({i + 1},{j + 1}) = {dfdu[i, j]!r}, differences of func give {Ju[i, j]!r}")
                return res
            smp = np.abs(Jp - Jp2) <= 1e-7 * (1 + np.abs(Jp))
            cols = [slots[p] - 1 for p in decl_params]
            badp = smp & ~(np.abs(dfdp - Jp) <= 1e-6 * (1 + np.abs(Jp)))
            if np.any(badp[:, cols]):
                i, j = [int(v[0]) for v in np.where(badp)]
                res.violate("DFDP", f"DFDP({i + 1},{j + 1}) = {dfdp[i, j]!r}, differences of func w.r.t. PAR({j + 1}) give "
                                    f"{Jp[i, j]!r}; parnames {slots}")
                return res
        sys.modules.pop(fname, None)
        for f in glob.glob(fname + "*"):
            try:
                os.remove(f)
            except OSError:
                pass
        return res

    def sample(self, case):
        from ..model import render_eq
        od = case["spec"]["ops"]["op0"]
        return {"eqs": [render_eq(*e) for e in od["eqs"]], "declaration": [v[0] for v in od["vars"]],
                "scenarios": case["scenarios"]}


ARMS = [AutoArm()]
