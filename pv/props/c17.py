"""C17 - a parameter sweep (grid_search) equals running each parameter set on its own."""
import copy
import warnings

import numpy as np
from hypothesis import strategies as st

from .. import gen
from ..arm import Arm
from ..common import CaseResult, HarnessError, exc_bucket, short_exc
from ..findings import excluded_by
from ..model import RefModel, build_circuit, run_circuit

PROPERTY = {
    "id": "C17",
    "rule": ("Hypothesis-generated flat circuits (2-4 nodes, leaky dynamics, 1-5 edges) x parameter maps with 1-2 grid "
             "keys (node constants or initial values on one or several nodes and variables; edge weights of one or "
             "several edges, addressed with and without edge index) x grids (equal-length lists or permute_grid=True), "
             "optional extrinsic input, euler and scipy: for every row of the RETURNED parameter table the spec is "
             "rebuilt from scratch with that row's values and simulated by the reference interpreter; the columns "
             "labelled with that row's key must carry these trajectories, every grid row must appear exactly once, and "
             "(uncoupled circuits) no row may be influenced by another. Non-trivial = >=2 grid rows with different "
             "values and >=1 edge; distinct = canonical JSON of the case."),
    "assumptions": [
        "only circuits whose plain run() agrees with the reference are judged (others: C01/C04)",
        "scipy rows compared at 2e-5 relative, euler rows at 1e-8 relative",
    ],
}
PROPERTY["rule"] += ' One to three keys per sweep (three-key sweeps with permuted grids included).'


def apply_row(spec, pmap, row):
    """rebuild the spec with the values of one grid row (not through adapt_circuit)"""
    s = copy.deepcopy(spec)
    # every node gets its own node type so that per-node values can be set
    for i, (p, nt) in enumerate(s["nodes"]):
        nn = f"{nt}_row{i}"
        s["ntypes"][nn] = copy.deepcopy(s["ntypes"][nt])
        s["nodes"][i][1] = nn
    for key, m in pmap.items():
        val = float(row[key])
        if "nodes" in m:
            for n in m["nodes"]:
                ntn = dict(s["nodes"])[n]
                for v in m["vars"]:
                    o, vn = v.split("/")
                    s["ntypes"][ntn].setdefault("ov", {}).setdefault(o, {})[vn] = val
        else:
            for ed in m["edges"]:
                src, tgt = ed[0], ed[1]
                idx = ed[2] if len(ed) > 2 else 0
                k = 0
                for e in s["edges"]:
                    if e["s"] == src and e["t"] == tgt and not e.get("scope"):
                        if k == idx:
                            for v in m["vars"]:
                                if v == "weight":
                                    e["w"] = val
                                elif v == "delay":
                                    e["d"] = val
                        k += 1
    used = {nt for _, nt in s["nodes"]}
    s["ntypes"] = {k: v for k, v in s["ntypes"].items() if k in used}
    return s


@st.composite
def sweep_case(draw, ctx=None):
    vec_ = draw(st.booleans())
    spec = draw(gen.model_spec({"leak": True, "max_types": 2, "max_ops": 2, "max_nodes": 4, "min_nodes": 2,
                                "max_edges": 5, "min_edges": 1, "edge_reuse": False, "expr_depth": 2, "max_alg": 1,
                                "max_in": 2, "depths": [0, 0, 1], "collision": False,
                                "funcs": ["sin", "cos", "tanh", "sigmoid", "arctan"], "pow": False,
                                "overrides": draw(st.sampled_from([True, True, False]))}))
    # (with overrides off all nodes of a type are built from ONE NodeTemplate object and a key may address a subset)
    if any(nt.get("ov") and any(nt["ov"].values()) for nt in spec["ntypes"].values()):
        spec = gen.uniquify_init(spec)
    repaired = []
    if ctx is not None:
        from ..finding_predicates import repair_case
        rc = repair_case({"spec": spec, "cfg": {"vectorize": vec_}}, ctx)
        spec, repaired = rc["spec"], rc.get("_repaired", [])
    rm = RefModel(spec)
    n_keys = draw(st.sampled_from([1, 2, 2, 2, 3]))
    pmap = {}
    grid = {}
    node_names = [p for p, _ in spec["nodes"]]
    taken_pairs, taken_vars = set(), set()
    for ki in range(n_keys):
        key = f"G{ki}"
        top_edges = [e for e in spec["edges"] if not e.get("scope")]
        kind = draw(st.sampled_from(["node", "node", "edge"])) if top_edges else "node"
        if kind == "edge" and not (sorted({(e["s"], e["t"]) for e in top_edges} - taken_pairs)):
            kind = "node"
        if kind == "node":
            # one operator/variable (const or state), on one or several nodes that have it
            cand = sorted({(o, v[0], v[1]) for p, nt in spec["nodes"] for o in spec["ntypes"][nt]["ops"]
                           for v in spec["ops"][o]["vars"] if v[1] in ("const", "state")} - taken_vars)
            if not cand:
                continue
            o, v, kd = draw(st.sampled_from(cand))
            taken_vars.add((o, v, kd))
            having = [p for p, nt in spec["nodes"] if o in spec["ntypes"][nt]["ops"]]
            nodes = draw(st.lists(st.sampled_from(having), min_size=1, max_size=len(having), unique=True))
            vars_ = [f"{o}/{v}"]
            if draw(st.integers(0, 3)) == 0:
                more = [c for c in cand if c[0] == o and c[1] != v and c[2] == kd]
                if more:
                    m2 = draw(st.sampled_from(more))
                    taken_vars.add(m2)
                    vars_.append(f"{o}/{m2[1]}")
            pmap[key] = {"vars": vars_, "nodes": sorted(nodes)}
            base = 0.6 if kd == "const" else -0.4
        else:
            pairs = sorted({(e["s"], e["t"]) for e in top_edges} - taken_pairs)
            chosen = draw(st.lists(st.sampled_from(pairs), min_size=1, max_size=min(2, len(pairs)), unique=True))
            taken_pairs |= set(chosen)
            edges = []
            for s_, t_ in chosen:
                cnt = sum(1 for e in top_edges if e["s"] == s_ and e["t"] == t_)
                if cnt > 1 or draw(st.booleans()):
                    edges.append([s_, t_, draw(st.integers(0, cnt - 1))])
                else:
                    edges.append([s_, t_])
            if len({len(e) for e in edges}) > 1:
                edges = [e if len(e) == 3 else e + [0] for e in edges]
            pmap[key] = {"vars": ["weight"], "edges": edges}
            base = 0.5
        n_vals = draw(st.integers(2, 3)) if (n_keys < 3 or ki == 1) else 2
        grid[key] = [round(base + 0.35 * j + 0.05 * ki, 3) for j in range(n_vals)]
    solver = draw(st.sampled_from(["euler", "euler", "scipy"]))
    ekeys = [k for k, m in pmap.items() if "edges" in m]
    if ekeys and solver == "euler" and len(grid) < 2 and draw(st.integers(0, 1)) == 0:
        # a second key on the SAME edge, for another attribute: its (discrete) delay, three to five steps
        e0 = pmap[ekeys[0]]["edges"][0]
        if not any(e.get("d") is not None for e in spec["edges"]):
            pmap["GD"] = {"vars": ["delay"], "edges": [list(e0)]}
            grid["GD"] = [0.03, 0.05, 0.04][:len(grid[ekeys[0]])]
    permute = draw(st.booleans()) if len(grid) >= 2 else False
    if not permute and len(grid) >= 2:
        m = min(len(v) for v in grid.values())
        grid = {k: v[:m] for k, v in grid.items()}
    inp = None
    in_vars = [k for k, kd in rm.kind.items() if kd == "input"]
    steps = draw(st.integers(8, 20))
    if in_vars and draw(st.integers(0, 2)) == 0:
        fl = st.floats(-1, 1, allow_nan=False).map(lambda v: round(v, 3))
        tgt = draw(st.sampled_from(in_vars))
        comps = tgt.split("/")
        if len(comps) > 3 and draw(st.booleans()):
            tgt = "/".join(["all"] + comps[1:])       # the node of that name in every sub-circuit
        inp = {"target": tgt, "values": draw(st.lists(fl, min_size=steps, max_size=steps))}
    return {"spec": spec, "pmap": pmap, "grid": grid, "permute": permute, "input": inp,
            "frame": draw(st.sampled_from([0, 0, 1, 2, 3])),
            "_repaired": repaired, "cfg": {"solver": solver, "dt": 0.01, "steps": steps, "vectorize": vec_}}


class SweepArm(Arm):
    name = "sweep"
    budget = {"quick": 700, "thorough": 5000}
    min_per_shard = 12
    case_timeout = 120
    required_labels = ("node_key", "edge_key", "permute", "permute_three_keys", "input", "scipy", "euler", "edge_idx", "several_nodes",
                       "subset_of_nodes_sharing_a_template", "dataframe_grid_permuted_index", "two_keys_on_one_edge",
                       "input_wildcard", "hierarchical")

    def strategy(self, ctx):
        return sweep_case(ctx)

    def run(self, case, ctx):
        from .. import isolate
        from pyrates import grid_search
        res = CaseResult()
        ex = excluded_by("C17", case, ctx)
        if ex:
            res.excluded = ex
            return res
        spec, pmap, grid, cfg = case["spec"], case["pmap"], case["grid"], case["cfg"]
        dt, steps, solver, vec = cfg["dt"], cfg["steps"], cfg["solver"], cfg["vectorize"]
        T = dt * steps
        rm = RefModel(spec)
        sp = rm.state_paths
        lab = [solver, "vec" if vec else "novec"]
        for m in pmap.values():
            if "nodes" in m:
                lab.append("node_key")
                if len(m["nodes"]) > 1:
                    lab.append("several_nodes")
                if len(m["vars"]) > 1:
                    lab.append("several_vars")
            else:
                lab.append("edge_key")
                if "delay" in m["vars"]:
                    lab.append("two_keys_on_one_edge")
                if any(len(e) == 3 for e in m["edges"]):
                    lab.append("edge_idx")
        if case["permute"]:
            lab.append("permute")
            if len(case["grid"]) >= 3:
                lab.append("permute_three_keys")
        if any("/" in p for p, _ in spec["nodes"]):
            lab.append("hierarchical")
        nts_ = [nt for _, nt in spec["nodes"]]
        if any("nodes" in m and any(nts_.count(dict(spec["nodes"])[n]) > sum(1 for x in m["nodes"] if dict(spec["nodes"])[x] == dict(spec["nodes"])[n])
                                     for n in m["nodes"]) for m in pmap.values()):
            lab.append("subset_of_nodes_sharing_a_template")
        if case["input"]:
            lab.append("input")
        res.labels = sorted(set(lab)) + ["repaired:" + r for r in case.get("_repaired", [])]
        inputs = {case["input"]["target"]: np.asarray(case["input"]["values"], dtype=float)} if case["input"] else None
        ext = None
        if case["input"]:
            from .c08 import expand_inputs
            ext = expand_inputs(spec, rm, [{"target": case["input"]["target"], "values": case["input"]["values"]}])
            if "all" in case["input"]["target"].split("/")[:-2]:
                lab.append("input_wildcard")
                res.labels = sorted(set(lab)) + ["repaired:" + r for r in case.get("_repaired", [])]

        def reference(s):
            r = RefModel(s)
            if solver == "euler":
                return r.simulate(steps, dt, inputs=ext)[:steps]
            from scipy.integrate import solve_ivp
            y0 = np.array([r.y0()[p] for p in r.state_paths])
            grid_t = np.linspace(0.0, T, steps) if ext else None

            def f(t, y):
                e = {k: float(np.interp(t, grid_t, v)) for k, v in ext.items()} if ext else None
                d = r.vf(dict(zip(r.state_paths, y)), t=t, ext=e)
                return np.array([d[p][0] for p in r.state_paths])
            sol = solve_ivp(f, (0.0, T), y0, method="DOP853", rtol=1e-10, atol=1e-12, t_eval=np.arange(steps) * dt,
                            max_step=(T / (steps - 1) / 2) if ext else np.inf)
            return sol.y.T
        tol = 1e-8 if solver == "euler" else 2e-5
        kw = {} if solver == "euler" else dict(method="RK45", rtol=1e-8, atol=1e-10)
        if solver != "euler" and ext:
            kw["max_step"] = T / (steps - 1) / 2
        outputs = {f"v{i}": p for i, p in enumerate(sp)}
        # plain run of the base circuit must agree with the reference
        try:
            ref0 = reference(spec)
            if not np.all(np.isfinite(ref0)) or np.max(np.abs(ref0)) > 1e6:
                res.rejected = "reference not benign"
                return res
            df0 = run_circuit(spec, T, dt, dict(outputs), solver=solver, vectorize=vec,
                              inputs=dict(inputs) if inputs else None, **kw)
            a0 = np.column_stack([np.asarray(df0[f"v{i}"], dtype=float) for i in range(len(sp))])
            if a0.shape != ref0.shape or np.max(np.abs(a0 - ref0) / (1 + np.abs(ref0))) > tol:
                res.rejected = "plain run deviates from reference (C01/C04/C08)"
                return res
        except HarnessError:
            raise
        except Exception as e:
            res.rejected = f"plain-run-raises:{type(e).__name__}"
            return res
        isolate.reset()
        circ = build_circuit(spec)
        pm = {k: ({"vars": m["vars"], "nodes": list(m["nodes"])} if "nodes" in m else
                  {"vars": m["vars"], "edges": [tuple(e) for e in m["edges"]]}) for k, m in pmap.items()}
        try:
            with warnings.catch_warnings():
                warnings.simplefilter("ignore")
                pg = {k: list(v) for k, v in grid.items()}
                if case.get("frame") and not case["permute"]:
                    # a parameter table whose integer index is a permutation of 0..n-1 (e.g. after sort_values / sample)
                    import pandas as pd
                    n_rows = len(next(iter(pg.values())))
                    order = list(range(n_rows))
                    order = order[case["frame"] % n_rows:] + order[:case["frame"] % n_rows]
                    order = order[::-1]
                    pg = pd.DataFrame(pg).iloc[order]
                    lab.append("dataframe_grid" + ("_permuted_index" if order != sorted(order) else ""))
                    res.labels = sorted(set(lab)) + ["repaired:" + r for r in case.get("_repaired", [])]
                results, ptab = grid_search(circ, pg, pm, step_size=dt,
                                            simulation_time=T, outputs={f"v{i}": p for i, p in enumerate(sp)},
                                            inputs=dict(inputs) if inputs else None, permute_grid=case["permute"],
                                            solver=solver, vectorize=vec, verbose=False, float_precision="float64",
                                            clear=True, **kw)
        except HarnessError:
            raise
        except Exception as e:
            res.violate(exc_bucket("grid_search-raises", e), f"param_map {pmap} grid {grid} permute={case['permute']}: {short_exc(e)}")
            return res
        # expected rows
        import itertools
        keys = list(grid)
        if case["permute"]:
            want = sorted(itertools.product(*[grid[k] for k in keys]))
        else:
            want = sorted(zip(*[grid[k] for k in keys]))
        got = sorted(tuple(round(float(ptab[k][idx]), 9) for k in keys) for idx in ptab.index)
        if got != sorted(tuple(round(float(x), 9) for x in w) for w in want):
            res.violate("grid-rows", f"returned parameter table rows {got} != requested grid rows {want}")
            return res
        res.nontrivial = len(set(got)) >= 2 and bool(spec["edges"])
        cols = {}
        for col in results.columns:
            if not isinstance(col, tuple) or len(col) < 3:
                res.violate("column-format", f"unexpected column label {col!r}")
                return res
            parts = [c for c in col if c != ""]
            key, ck, path = parts[0], parts[1], "/".join(parts[2:])
            cols[(key, ck, path)] = np.asarray(results[col], dtype=float)
        for idx in ptab.index:
            row = {k: float(ptab[k][idx]) for k in keys}
            s_row = apply_row(spec, pmap, row)
            ref = reference(s_row)
            r_paths = RefModel(s_row).state_paths
            for i, p in enumerate(sp):
                c = cols.get((f"v{i}", idx, p))
                if c is None:
                    res.violate("missing-column", f"no column for output v{i}={p} of circuit {idx}; columns {list(results.columns)[:6]}")
                    return res
                rj = ref[:, r_paths.index(p)]
                if c.shape != rj.shape or np.max(np.abs(c - rj) / (1 + np.abs(rj))) > tol:
                    others = []
                    for idx2 in ptab.index:
                        if idx2 == idx:
                            continue
                        r2 = reference(apply_row(spec, pmap, {k: float(ptab[k][idx2]) for k in keys}))
                        if c.shape == r2[:, i].shape and np.max(np.abs(c - r2[:, r_paths.index(p)]) / (1 + np.abs(rj))) <= tol:
                            others.append(idx2)
                    res.violate(f"row-trajectory:{solver}", f"circuit {idx} (parameters {row}): {p} deviates from a separate run "
                                                            f"with these values (matches row(s) {others}); param_map {pmap}")
                    return res
        res.info["rows_checked"] = res.info.get("rows_checked", 0) + len(ptab.index)
        return res

    def sample(self, case):
        return {"nodes": case["spec"]["nodes"], "edges": [[e["s"], e["t"], e["w"]] for e in case["spec"]["edges"]],
                "param_map": case["pmap"], "grid": case["grid"], "permute": case["permute"], "cfg": case["cfg"],
                "input": bool(case["input"])}


ARMS = [SweepArm()]
