"""C05 - the equation language means what its arithmetic says (both evaluation paths, all syntactic variants)."""
import warnings

import numpy as np
from hypothesis import strategies as st

from .. import expr as E
from .. import gen
from ..arm import Arm
from ..common import CaseResult, HarnessError, exc_bucket, short_exc
from ..findings import excluded_by

PROPERTY = {
    "id": "C05",
    "rule": ("Hypothesis-generated expression ASTs over the documented grammar (+ - * / ** unary minus, nested calls of "
             "sin cos tan sinh cosh tanh arcsin arccos arctan exp log sigmoid absv, constants pi and E, numeric literal "
             "forms, 1-5 variables drawn from name families that contain one another or resemble generated names), "
             "each rendered in 3 syntactic variants (spacing, ^ vs **, redundant/minimal parentheses, number formats) and "
             "with both derivative notations; arm eval_node: ExpressionParser.parse_expr + ComputeGraph.eval_node; arm "
             "codegen: one-equation operator compiled with get_run_func and evaluated at 3 argument assignments passed "
             "through the argument list; arm index: index/index_range/index_axis/index_2d on vector and matrix "
             "constants. Oracle: own AST evaluator (NumPy float64), |impl-ref| <= 1e-9*M+1e-12. Non-trivial = >=2 "
             "operators of different precedence or a nested call; distinct = canonical JSON of (AST, variable names)."),
    "assumptions": [
        "Python precedence/associativity (documentation: 'follows the Python syntax'); ^ means **",
        "sigmoid(x) = 1/(1+exp(-x)) as implemented in base_funcs (the prose of math_syntax.rst has a sign typo)",
        "maxi/mini/round are not generated (their documentation and NumPy stand-ins disagree on arity / tie rule)",
    ],
}
PROPERTY["rule"] += ' Arm special_names: a parameter/state/input whose NAME has another meaning in the tool chain (70 names: sympy constants, singletons, function classes, generator-internal names) - the model is refused with an exception, or the name denotes the declared variable (its value enters the equation and follows the argument of that name).'

RTOL, ATOL = 1e-9, 1e-12


def styles_for(k):
    return [E.Style(), E.Style(seed=k + 1, space=1, caret=True, redundant=1, numfmt=1),
            E.Style(seed=k + 7, space=2, caret=bool(k % 2), redundant=2, numfmt=2)]


def nontrivial_ast(ast):
    precs = set()
    nested = [False]

    def walk(a, in_call):
        k = a[0]
        if k == "bin":
            precs.add(E.PREC[a[1]])
            walk(a[2], in_call); walk(a[3], in_call)
        elif k == "neg":
            precs.add(3); walk(a[1], in_call)
        elif k == "pow":
            precs.add(4); walk(a[1], in_call)
        elif k == "call":
            if in_call:
                nested[0] = True
            for x in a[2:]:
                walk(x, True)
    walk(ast, False)
    return len(precs) >= 2 or nested[0]


@st.composite
def expr_case(draw, max_depth=4, const_calls=True):
    nvars = draw(st.integers(1, 5))
    pool = gen.NAME_POOL
    names = draw(st.lists(st.sampled_from(pool), min_size=nvars, max_size=nvars, unique=True))
    # bias towards families that contain one another
    if draw(st.booleans()):
        fam = draw(st.sampled_from([["r", "rr", "r_in", "r_in0"], ["x", "x_v1", "xs", "x_in0"], ["a", "ab", "abc"],
                                    ["m_in", "m_in2", "m"], ["tau", "tau1", "tau_e"], ["weight", "weight_in0", "w"]]))
        names = list(dict.fromkeys(fam[:nvars] + names))[:max(nvars, 2)]
    ast, _ = draw(E.expr_strategy(names, max_depth=max_depth, const_calls=const_calls))
    if draw(st.integers(0, 14)) == 0:
        # right-hand sides without any variable (numeric literals and the documented constants only), also negative
        c = draw(st.sampled_from([["const", "pi"], ["const", "E"], ["num", 2.0], ["num", 0.5], ["num", 3.25]]))
        d = draw(st.sampled_from([["num", 2.0], ["const", "pi"], ["num", 1.5]]))
        ast = draw(st.sampled_from([["neg", c], c, ["bin", "*", ["neg", d], c], ["bin", "-", c, d], ["neg", ["bin", "/", c, d]],
                                    ["bin", "*", d, ["neg", c]], ["neg", ["bin", "+", c, d]], ["neg", ["pow", c, 2]]]))
    elif len(names) >= 2 and draw(st.integers(0, 9)) == 0:
        # sums that are algebraically related to one another (shared variables with equal or opposite sign, numeric
        # terms) combined by * / - : sympy matches and rewrites sums when sub-expressions are replaced
        a, b = ["var", names[0]], ["var", names[1]]
        c = ["var", names[2]] if len(names) > 2 else ["num", 1.5]
        num = ["num", draw(st.sampled_from([2.0, 3.0, 0.5, 1.0]))]
        s1 = draw(st.sampled_from([["bin", "+", a, b], ["bin", "+", a, num], ["bin", "+", ["bin", "+", a, b], c], ["bin", "-", a, b]]))
        s2 = draw(st.sampled_from([["bin", "-", num, a], ["neg", ["bin", "+", a, num]], ["bin", "-", c, a], ["bin", "+", a, c],
                                   ["bin", "-", ["bin", "-", num, a], b], ["bin", "+", a, b], ["bin", "-", b, a]]))
        op = draw(st.sampled_from(["*", "*", "-", "+"]))
        ast = ["bin", op, s1, s2]
        if draw(st.booleans()):
            ast = ["bin", draw(st.sampled_from(["*", "+"])), ast, draw(st.sampled_from([s1, s2, a, ["call", "tanh", s1]]))]
    fl = st.floats(-2.5, 2.5, allow_nan=False).map(lambda v: round(v, 3))
    probes = draw(st.lists(st.lists(fl, min_size=len(names), max_size=len(names)), min_size=3, max_size=3))
    return {"ast": ast, "names": names, "probes": probes, "k": draw(st.integers(0, 1000)),
            "notation": draw(st.integers(0, 2))}


def labels_of(case):
    ast = case["ast"]
    lab = ["f:" + f for f in sorted(E.funcs_used(ast))]
    if set(case["names"]) & set(gen.COLLISION_NAMES):
        lab.append("collision_name")
    ns = case["names"]
    if any(a != b and (a.startswith(b) or a.endswith(b)) for a in ns for b in ns):
        lab.append("prefix_suffix_names")
    if any(n[0] == "pow" for n in _walk(ast)):
        lab.append("pow")
    if any(n[0] == "const" for n in _walk(ast)):
        lab.append("const")
    if not E.variables(ast):
        lab.append("constant_rhs")
    if ast[0] == "bin" and all(isinstance(x, list) and x[0] in ("bin", "neg") for x in ast[2:4]) and \
            set(E.variables(ast[2])) & set(E.variables(ast[3])):
        lab.append("related_sums")
    return lab


def _walk(ast):
    yield ast
    k = ast[0]
    if k in ("neg", "pow"):
        yield from _walk(ast[1])
    elif k == "bin":
        yield from _walk(ast[2]); yield from _walk(ast[3])
    elif k == "call":
        for a in ast[2:]:
            yield from _walk(a)


class EvalNodeArm(Arm):
    name = "eval_node"
    budget = {"quick": 5000, "thorough": 60000}
    min_per_shard = 60
    #: (shards, cases per shard) of coverage-guided fuzzing (atheris) over the same strategy and oracle
    fuzz = {"quick": (2, 400), "thorough": (8, 8000)}
    fuzz_modules = ("pyrates.backend.parser", "pyrates.backend.computegraph")

    def strategy(self, ctx):
        return expr_case()

    def run(self, case, ctx):
        from .. import isolate
        res = CaseResult()
        ex = excluded_by("C05", case, ctx)
        if ex:
            res.excluded = ex
            return res
        res.labels = labels_of(case)
        res.nontrivial = nontrivial_ast(case["ast"])
        ast, names = case["ast"], case["names"]
        from pyrates.backend.computegraph import ComputeGraph
        from pyrates.backend.parser import ExpressionParser
        for si, sty in enumerate(styles_for(case["k"])):
            text = E.render(ast, sty)
            for vals in case["probes"][:2]:
                env = dict(zip(names, vals))
                with np.errstate(all="ignore"):
                    ref, mag = E.evaluate_mag(ast, env)
                if not np.isfinite(ref) or abs(ref) > 1e6:
                    res.info["discarded_numerics"] = res.info.get("discarded_numerics", 0) + 1
                    continue
                isolate.reset(remove_files=False)
                args = {n: {"vtype": "constant", "value": float(v), "dtype": "float64", "shape": ()}
                        for n, v in env.items()}
                # explicit left-hand side: a bare expression is parsed as "x = <expr>" with a dummy variable x that
                # shadows a user variable of that name (artifact of the test-only path, not of the language)
                lhs = "pvres" if "pvres" not in env else "pvres0"
                args[lhs] = {"vtype": "variable", "value": 0.0, "dtype": "float64", "shape": ()}
                try:
                    with warnings.catch_warnings():
                        warnings.simplefilter("ignore")
                        cg = ComputeGraph(backend="default", float_precision="float64")
                        ExpressionParser(expr_str=f"{lhs} = {text}", args=args, cg=cg).parse_expr()
                        got = cg.eval_node(cg.var_updates["non-DEs"][lhs])
                    got = float(np.asarray(got, dtype=float).ravel()[0])
                except HarnessError:
                    raise
                except Exception as e:
                    res.violate(exc_bucket("eval-raises", e), f"'{text}' with {env}: {short_exc(e)}")
                    return res
                if not abs(got - ref) <= RTOL * mag + ATOL:
                    res.violate("wrong-value:eval_node", f"'{text}' with {env}: eval_node gives {got!r}, arithmetic says "
                                                         f"{float(ref)!r} (style {si})")
                    return res
                res.info["values_checked"] = res.info.get("values_checked", 0) + 1
        return res

    def sample(self, case):
        return {"variants": [E.render(case["ast"], s) for s in styles_for(case["k"])], "names": case["names"],
                "probe0": case["probes"][0]}


class CodegenArm(Arm):
    name = "codegen"
    budget = {"quick": 1500, "thorough": 12000}
    min_per_shard = 20

    def strategy(self, ctx):
        return expr_case(max_depth=4)

    def run(self, case, ctx):
        from ..model import compile_vf
        res = CaseResult()
        ex = excluded_by("C05", case, ctx)
        if ex:
            res.excluded = ex
            return res
        res.labels = labels_of(case) + [f"notation:{case['notation']}"]
        res.nontrivial = nontrivial_ast(case["ast"])
        ast, names = case["ast"], case["names"]
        lhs = "q" if "q" not in names else "qq0"
        spec = {"ops": {"op0": {"vars": [[lhs, "state", 0.25]] + [[n, "const", 0.5 + 0.1 * i] for i, n in enumerate(names)],
                                "eqs": [[lhs, True, ast, case["notation"]]], "out": lhs}},
                "ntypes": {"nt0": {"ops": ["op0"], "ov": {}}}, "nodes": [["p0", "nt0"]], "edges": [], "etypes": {}}
        used = E.variables(ast)
        for si, sty in enumerate(styles_for(case["k"])):
            try:
                c = compile_vf(spec, vectorize=False, style=sty)
            except HarnessError:
                raise
            except Exception as e:
                res.violate(exc_bucket("compile-raises", e), f"q' = {E.render(ast, sty)} : {short_exc(e)}")
                return res
            for vals in case["probes"]:
                env = dict(zip(names, vals))
                with np.errstate(all="ignore"):
                    ref, mag = E.evaluate_mag(ast, env)
                if not np.isfinite(ref) or abs(ref) > 1e6:
                    res.info["discarded_numerics"] = res.info.get("discarded_numerics", 0) + 1
                    continue
                ov = {}
                for n in names:
                    key = f"p0/op0/{n}"
                    if key in c.names:
                        ov[key] = env[n]
                    elif n in used and not _vanishes(ast, n, env):
                        res.violate("missing-argument", f"variable {n} of q' = {E.render(ast, sty)} is not an argument "
                                                        f"of the generated function ({c.names})")
                        return res
                try:
                    got = c.call(0.0, c.y0, ov)
                except Exception as e:
                    res.violate(exc_bucket("call-raises", e), f"q' = {E.render(ast, sty)} : {short_exc(e)}")
                    return res
                if got.size != 1 or not abs(got[0] - ref) <= RTOL * mag + ATOL:
                    res.violate("wrong-value:codegen", f"q' = {E.render(ast, sty)} with {env}: generated function gives "
                                                       f"{got!r}, arithmetic says {float(ref)!r}")
                    return res
                res.info["values_checked"] = res.info.get("values_checked", 0) + 1
        return res

    sample = EvalNodeArm.sample


def _vanishes(ast, name, env):
    """variable does not influence the value (e.g. x - x): sympy may legitimately drop it"""
    e1 = dict(env)
    e2 = dict(env)
    e2[name] = env[name] + 0.7319
    with np.errstate(all="ignore"):
        try:
            return abs(E.evaluate(ast, e1) - E.evaluate(ast, e2)) < 1e-13
        except Exception:
            return False


# ----------------------------------------------------------------------------------------------------------------------
# index helpers
# ----------------------------------------------------------------------------------------------------------------------
#: name -> (template with {v} {A} {j} {k} {c}, numpy meaning, result kind: scalar | vec_n (len of v) | row (A.shape[1]) | col)
INDEX_FORMS = {
    "index": ("index({v}, {k})", lambda v, A, j, k, c: v[k], "scalar"),
    "index_2d": ("index_2d({A}, {j}, {k})", lambda v, A, j, k, c: A[j, k], "scalar"),
    "index_mix": ("{c}*index({v}, {k}) - index_2d({A}, {j}, {k})/2.0", lambda v, A, j, k, c: c * v[k] - A[j, k] / 2.0, "scalar"),
    "index_twice": ("index({v}, {k})*index({v}, {j}) + {c}", lambda v, A, j, k, c: v[k] * v[j] + c, "scalar"),
    "index_row": ("index({A}, {j})", lambda v, A, j, k, c: A[j], "row"),
    "index_axis0": ("index_axis({A}, {j}, 0)", lambda v, A, j, k, c: A[j, :], "row"),
    "index_axis1": ("index_axis({A}, {k}, 1)", lambda v, A, j, k, c: A[:, k], "col"),
    "index_range": ("index_range({v}, {j}, {k})", lambda v, A, j, k, c: v[j:k], "range"),
    "index_nested": ("index(index({A}, {j}), {k})", lambda v, A, j, k, c: A[j][k], "scalar"),
    "index_of_axis": ("index(index_axis({A}, {k}, 1), {j})", lambda v, A, j, k, c: A[:, k][j], "scalar"),
}


def _decl(val, dtype="float64", vtype="constant"):
    val = np.asarray(val)
    return {"vtype": vtype, "value": val if val.shape else val.item(), "shape": val.shape, "dtype": dtype}


class IndexArm(Arm):
    name = "index"
    budget = {"quick": 400, "thorough": 5000}
    min_per_shard = 10
    required_labels = tuple("form:" + f for f in ("index", "index_2d", "index_mix", "index_twice", "index_row", "index_axis0"))

    def strategy(self, ctx):
        @st.composite
        def case(draw):
            n = draw(st.integers(3, 5))
            m = draw(st.integers(2, 4))
            form = draw(st.sampled_from(sorted(INDEX_FORMS)))
            names = draw(st.sampled_from([["v", "A", "j", "k", "c"], ["r", "rr", "r_in", "r_in0", "k"],
                                          ["x", "xs", "x_v1", "m_in", "m_in2"], ["ab", "a", "abc", "w", "u"]]))
            j = draw(st.integers(0, min(m, n) - 2))
            k = draw(st.integers(j + 1, min(m, n) - 1))     # j < k, both valid for every axis used above
            j2 = draw(st.integers(0, min(m, n) - 2))
            k2 = draw(st.integers(j2 + 1, min(m, n) - 1))
            return {"form": form, "n": n, "m": m, "names": names, "j": j, "k": k, "j2": j2, "k2": k2,
                    "literal": draw(st.sampled_from([False, False, True])), "space": draw(st.integers(0, 2)),
                    "notation": draw(st.integers(0, 1)), "path": draw(st.sampled_from(["codegen", "codegen", "eval_node"]))}
        return case()

    def run(self, case, ctx):
        from .. import isolate
        res = CaseResult()
        ex = excluded_by("C05", case, ctx)
        if ex:
            res.excluded = ex
            return res
        tmpl, meaning, kind = INDEX_FORMS[case["form"]]
        n, m = case["n"], case["m"]
        vn, An, jn, kn, cn = case["names"]
        v = np.array([round(0.31 + 0.47 * i * (-1) ** i, 3) for i in range(max(n, m))])
        A = np.array([[round(0.05 + 0.1 * (r * max(n, m) + c_), 3) for c_ in range(max(n, m))] for r in range(max(n, m))])
        c = 1.5
        j, k = case["j"], case["k"]
        lit = case["literal"]
        text = tmpl.format(v=vn, A=An, j=(str(j) if lit else jn), k=(str(k) if lit else kn), c=cn)
        if case["space"] == 1:
            text = text.replace(", ", ",")
        elif case["space"] == 2:
            text = text.replace("(", "( ").replace(")", " )")
        want0 = np.asarray(meaning(v, A, j, k, c), dtype=float)
        res.labels = ["form:" + case["form"], "path:" + case["path"]] + (["literal_index"] if lit else ["parameter_index"])
        res.nontrivial = True
        isolate.reset(remove_files=False)
        if case["path"] == "eval_node":
            from pyrates.backend.computegraph import ComputeGraph
            from pyrates.backend.parser import ExpressionParser
            args = {vn: _decl(v), An: _decl(A), cn: _decl(c), jn: _decl(j, "int32"), kn: _decl(k, "int32"),
                    "pvres": {"vtype": "variable", "value": np.zeros(want0.shape) if want0.shape else 0.0, "dtype": "float64",
                              "shape": want0.shape}}
            try:
                with warnings.catch_warnings():
                    warnings.simplefilter("ignore")
                    cg = ComputeGraph(backend="default", float_precision="float64")
                    ExpressionParser(expr_str=f"pvres = {text}", args=args, cg=cg).parse_expr()
                    got = np.asarray(cg.eval_node(cg.var_updates["non-DEs"]["pvres"]), dtype=float)
            except HarnessError:
                raise
            except Exception as e:
                res.violate(exc_bucket(f"eval-raises:{case['form']}", e), f"'{text}' (j={j}, k={k}): {short_exc(e)}")
                return res
            if got.shape != want0.shape or np.max(np.abs(got - want0)) > 1e-12:
                res.violate(f"wrong-value:eval_node:{case['form']}", f"'{text}' (j={j}, k={k}): eval_node gives {got.tolist()}, "
                                                                     f"NumPy indexing says {want0.tolist()}")
            return res
        from pyrates import CircuitTemplate, NodeTemplate, OperatorTemplate
        q0 = np.full(want0.shape, 0.25) if want0.shape else 0.25
        lhs = "q" if "q" not in case["names"] else "qq0"
        eq = f"d/dt * {lhs} = {text} - {lhs}" if case["notation"] == 0 else f"{lhs}' = {text} - {lhs}"
        variables = {lhs: _decl(q0, vtype="output") if want0.shape else "output(0.25)", vn: _decl(v), An: _decl(A),
                     cn: c, jn: _decl(j, "int32"), kn: _decl(k, "int32")}
        try:
            with warnings.catch_warnings():
                warnings.simplefilter("ignore")
                op = OperatorTemplate(name="op0", path=None, equations=[eq], variables=variables)
                circ = CircuitTemplate(name="net", path=None, nodes={"p0": NodeTemplate(name="nt0", path=None, operators=[op])})
                func, args, names, svm = circ.get_run_func("pv_c05i", step_size=0.01, vectorize=False, in_place=False,
                                                           verbose=False, clear=True, float_precision="float64",
                                                           file_name="pv_gen_c05i")
                y = np.asarray(args[1], dtype=float)
                got = np.array(func(0, y.copy(), np.zeros_like(y), *args[3:]), dtype=float).ravel()
        except HarnessError:
            raise
        except Exception as e:
            res.violate(exc_bucket(f"compile-or-call-raises:{case['form']}", e), f"{eq} (j={j}, k={k}, {n=}, {m=}): {short_exc(e)}")
            return res
        want = (want0 - 0.25).ravel()
        if got.shape != want.shape or np.max(np.abs(got - want)) > 1e-12:
            res.violate(f"wrong-value:codegen:{case['form']}", f"{eq} (j={j}, k={k}): generated function gives {got.tolist()}, "
                                                               f"NumPy indexing says {want.tolist()}")
            return res
        if lit or kind == "range":
            return res
        # the index parameters are arguments of the generated function: call it with other index values
        j2, k2 = case["j2"], case["k2"]
        a2 = list(args)
        used = {}
        for nm, val in ((f"p0/op0/{jn}", j2), (f"p0/op0/{kn}", k2)):
            if nm in names:
                i = list(names).index(nm)
                a2[i] = np.asarray(val, dtype=np.asarray(args[i]).dtype).reshape(np.shape(args[i]))
                used[nm] = val
        jj = j2 if f"p0/op0/{jn}" in used else j
        kk = k2 if f"p0/op0/{kn}" in used else k
        try:
            got2 = np.array(func(0, y.copy(), np.zeros_like(y), *a2[3:]), dtype=float).ravel()
        except Exception as e:
            res.violate(exc_bucket(f"call-raises:{case['form']}", e), f"{eq} called with {used}: {short_exc(e)}")
            return res
        want2 = (np.asarray(meaning(v, A, jj, kk, c), dtype=float) - 0.25).ravel()
        res.labels.append("index_argument_changed")
        if got2.shape != want2.shape or np.max(np.abs(got2 - want2)) > 1e-12:
            res.violate(f"wrong-value:codegen-index-argument:{case['form']}",
                        f"{eq}: called with index arguments {used} the generated function gives {got2.tolist()}, NumPy "
                        f"indexing says {want2.tolist()}")
        return res

    def sample(self, case):
        return {k_: case[k_] for k_ in ("form", "n", "m", "j", "k", "j2", "k2", "literal", "path", "names")}


# ----------------------------------------------------------------------------------------------------------------------
# names with a meaning of their own
# ----------------------------------------------------------------------------------------------------------------------
#: names that the equation language, sympy or the code generators give a meaning of their own, and names close to them
SPECIAL_NAMES = ["E", "pi", "I", "S", "N", "O", "Q", "oo", "zoo", "nan", "GoldenRatio", "EulerGamma", "Catalan",
                 "TribonacciConstant", "beta", "gamma", "Beta", "Gamma", "zeta", "lambda_", "Lambda", "exp", "log", "sin",
                 "sqrt", "abs", "Abs", "re", "im", "sign", "Max", "Min", "e", "Pi", "PI", "Ee", "E1", "y", "dy", "dt",
                 "weight", "source_idx", "target_idx", "np", "inf", "Inf", "true", "false", "None_", "Symbol", "Integer",
                 "Rational", "Float", "ff", "rf", "li", "Li", "Si", "Ci", "Ei", "erf", "uppergamma", "Chi", "Shi", "FU",
                 "C", "D", "LT", "LC", "LM"]


class SpecialNamesArm(Arm):
    """a parameter whose NAME has a meaning of its own somewhere in the tool chain: the model is either refused (any
    exception when the template is built or compiled) or the name denotes the declared variable - its declared value
    enters the equation and changes with the argument of that name.  What may not happen is that the model is accepted
    and the declared value is silently replaced by the other meaning of the name (E -> 2.718...)."""
    name = "special_names"
    budget = {"quick": 320, "thorough": 1500}
    min_per_shard = 10

    def strategy(self, ctx):
        return st.fixed_dictionaries({"name": st.sampled_from(SPECIAL_NAMES), "value": st.sampled_from([3.0, -1.25, 0.4]),
                                      "form": st.integers(0, 3), "notation": st.integers(0, 2),
                                      "kind": st.sampled_from(["const", "const", "state", "input"])})

    def run(self, case, ctx):
        from ..model import compile_vf
        res = CaseResult()
        n, v = case["name"], case["value"]
        a = "a" if n != "a" else "b"
        nv = ["var", n]
        ast = [["bin", "+", ["neg", ["var", "u"]], ["bin", "*", nv, ["var", a]]],
               ["bin", "-", ["bin", "*", ["var", a], nv], ["var", "u"]],
               ["bin", "+", ["bin", "/", ["var", "u"], nv], ["var", a]],
               ["bin", "-", ["call", "tanh", ["bin", "+", nv, ["var", a]]], ["var", "u"]]][case["form"]]
        vars_ = [["u", "state", 0.25], [a, "const", 2.0], [n, case["kind"], v]]
        eqs = [["u", True, ast, case["notation"]]]
        if case["kind"] == "state":
            eqs.append([n, True, ["neg", nv], 0])
        spec = {"ops": {"op0": {"vars": vars_, "eqs": eqs, "out": "u"}},
                "ntypes": {"nt0": {"ops": ["op0"], "ov": {}}}, "nodes": [["p0", "nt0"]], "edges": [], "etypes": {}}
        res.labels = ["kind:" + case["kind"]]
        try:
            c = compile_vf(spec, vectorize=False)
        except HarnessError:
            raise
        except Exception as e:
            res.labels.append("refused")
            res.nontrivial = True
            res.info["refused"] = 1
            return res
        res.labels.append("accepted")
        res.nontrivial = True
        key = f"p0/op0/{n}"
        for val in (v, v + 0.75):
            env = {"u": 0.25, a: 2.0, n: val}
            ref = float(E.evaluate(ast, env))
            try:
                if case["kind"] == "state":
                    y = np.array(c.y0, dtype=float)
                    pos = c.positions()
                    if key not in pos or "p0/op0/u" not in pos:
                        res.violate("special-name:state-missing", f"state variable {n} has no position: {sorted(pos)}")
                        return res
                    y[pos[key][0]] = val
                    got = c.call(0.0, y)[pos["p0/op0/u"][0]]
                else:
                    if key not in c.names:
                        res.violate("special-name:declared-value-ignored",
                                    f"u' = {E.render(ast)} with the declared {case['kind']} {n} = {v}: accepted, but {n} is "
                                    f"not an argument of the generated function ({c.names[3:]}): the name means something else")
                        return res
                    pos = c.positions()
                    got = c.call(0.0, c.y0, {key: val})[pos["p0/op0/u"][0]]
            except HarnessError:
                raise
            except Exception as e:
                res.violate(exc_bucket("special-name:call-raises", e), f"variable named {n}: {short_exc(e)}")
                return res
            if not abs(float(got) - ref) <= 1e-9 * (1 + abs(ref)):
                res.violate("special-name:wrong-value", f"u' = {E.render(ast)} with {n} = {val}, {a} = 2.0, u = 0.25: generated "
                                                        f"function gives {float(got)!r}, arithmetic says {ref!r}")
                return res
        return res

    def sample(self, case):
        return dict(case)


ARMS = [EvalNodeArm(), CodegenArm(), IndexArm(), SpecialNamesArm()]
