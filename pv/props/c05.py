"""C05 - the equation language means what its arithmetic says (both evaluation paths, all syntactic variants)."""
import warnings

import numpy as np
from hypothesis import strategies as st

from .. import expr as E
from .. import gen
from ..arm import Arm
from ..common import CaseResult, HarnessError, exc_bucket, short_exc
from ..findings import excluded_by

PROPERTY = {
    "id": "C05",
    "rule": ("Hypothesis-generated expression ASTs over the documented grammar (+ - * / ** unary minus, nested calls of "
             "sin cos tan sinh cosh tanh arcsin arccos arctan exp log sigmoid absv, constants pi and E, numeric literal "
             "forms, 1-5 variables drawn from name families that contain one another or resemble generated names), "
             "each rendered in 3 syntactic variants (spacing, ^ vs **, redundant/minimal parentheses, number formats) and "
             "with both derivative notations; arm eval_node: ExpressionParser.parse_expr + ComputeGraph.eval_node; arm "
             "codegen: one-equation operator compiled with get_run_func and evaluated at 3 argument assignments passed "
             "through the argument list; arm index: index/index_range/index_axis/index_2d on vector and matrix "
             "constants. Oracle: own AST evaluator (NumPy float64), |impl-ref| <= 1e-9*M+1e-12. Non-trivial = >=2 "
             "operators of different precedence or a nested call; distinct = canonical JSON of (AST, variable names)."),
    "assumptions": [
        "Python precedence/associativity (documentation: 'follows the Python syntax'); ^ means **",
        "sigmoid(x) = 1/(1+exp(-x)) as implemented in base_funcs (the prose of math_syntax.rst has a sign typo)",
        "maxi/mini/round are not generated (their documentation and NumPy stand-ins disagree on arity / tie rule)",
    ],
}

RTOL, ATOL = 1e-9, 1e-12


def styles_for(k):
    return [E.Style(), E.Style(seed=k + 1, space=1, caret=True, redundant=1, numfmt=1),
            E.Style(seed=k + 7, space=2, caret=bool(k % 2), redundant=2, numfmt=2)]


def nontrivial_ast(ast):
    precs = set()
    nested = [False]

    def walk(a, in_call):
        k = a[0]
        if k == "bin":
            precs.add(E.PREC[a[1]])
            walk(a[2], in_call); walk(a[3], in_call)
        elif k == "neg":
            precs.add(3); walk(a[1], in_call)
        elif k == "pow":
            precs.add(4); walk(a[1], in_call)
        elif k == "call":
            if in_call:
                nested[0] = True
            for x in a[2:]:
                walk(x, True)
    walk(ast, False)
    return len(precs) >= 2 or nested[0]


@st.composite
def expr_case(draw, max_depth=4, const_calls=True):
    nvars = draw(st.integers(1, 5))
    pool = gen.NAME_POOL
    names = draw(st.lists(st.sampled_from(pool), min_size=nvars, max_size=nvars, unique=True))
    # bias towards families that contain one another
    if draw(st.booleans()):
        fam = draw(st.sampled_from([["r", "rr", "r_in", "r_in0"], ["x", "x_v1", "xs", "x_in0"], ["a", "ab", "abc"],
                                    ["m_in", "m_in2", "m"], ["tau", "tau1", "tau_e"], ["weight", "weight_in0", "w"]]))
        names = list(dict.fromkeys(fam[:nvars] + names))[:max(nvars, 2)]
    ast, _ = draw(E.expr_strategy(names, max_depth=max_depth, const_calls=const_calls))
    fl = st.floats(-2.5, 2.5, allow_nan=False).map(lambda v: round(v, 3))
    probes = draw(st.lists(st.lists(fl, min_size=len(names), max_size=len(names)), min_size=3, max_size=3))
    return {"ast": ast, "names": names, "probes": probes, "k": draw(st.integers(0, 1000)),
            "notation": draw(st.integers(0, 2))}


def labels_of(case):
    ast = case["ast"]
    lab = ["f:" + f for f in sorted(E.funcs_used(ast))]
    if set(case["names"]) & set(gen.COLLISION_NAMES):
        lab.append("collision_name")
    ns = case["names"]
    if any(a != b and (a.startswith(b) or a.endswith(b)) for a in ns for b in ns):
        lab.append("prefix_suffix_names")
    if any(n[0] == "pow" for n in _walk(ast)):
        lab.append("pow")
    if any(n[0] == "const" for n in _walk(ast)):
        lab.append("const")
    return lab


def _walk(ast):
    yield ast
    k = ast[0]
    if k in ("neg", "pow"):
        yield from _walk(ast[1])
    elif k == "bin":
        yield from _walk(ast[2]); yield from _walk(ast[3])
    elif k == "call":
        for a in ast[2:]:
            yield from _walk(a)


class EvalNodeArm(Arm):
    name = "eval_node"
    budget = {"quick": 5000, "thorough": 60000}
    min_per_shard = 60

    def strategy(self, ctx):
        return expr_case()

    def run(self, case, ctx):
        from .. import isolate
        res = CaseResult()
        ex = excluded_by("C05", case, ctx)
        if ex:
            res.excluded = ex
            return res
        res.labels = labels_of(case)
        res.nontrivial = nontrivial_ast(case["ast"])
        ast, names = case["ast"], case["names"]
        from pyrates.backend.computegraph import ComputeGraph
        from pyrates.backend.parser import ExpressionParser
        for si, sty in enumerate(styles_for(case["k"])):
            text = E.render(ast, sty)
            for vals in case["probes"][:2]:
                env = dict(zip(names, vals))
                with np.errstate(all="ignore"):
                    ref, mag = E.evaluate_mag(ast, env)
                if not np.isfinite(ref) or abs(ref) > 1e6:
                    res.info["discarded_numerics"] = res.info.get("discarded_numerics", 0) + 1
                    continue
                isolate.reset(remove_files=False)
                args = {n: {"vtype": "constant", "value": float(v), "dtype": "float64", "shape": ()}
                        for n, v in env.items()}
                # explicit left-hand side: a bare expression is parsed as "x = <expr>" with a dummy variable x that
                # shadows a user variable of that name (artifact of the test-only path, not of the language)
                lhs = "pvres" if "pvres" not in env else "pvres0"
                args[lhs] = {"vtype": "variable", "value": 0.0, "dtype": "float64", "shape": ()}
                try:
                    with warnings.catch_warnings():
                        warnings.simplefilter("ignore")
                        cg = ComputeGraph(backend="default", float_precision="float64")
                        ExpressionParser(expr_str=f"{lhs} = {text}", args=args, cg=cg).parse_expr()
                        got = cg.eval_node(cg.var_updates["non-DEs"][lhs])
                    got = float(np.asarray(got, dtype=float).ravel()[0])
                except HarnessError:
                    raise
                except Exception as e:
                    res.violate(exc_bucket("eval-raises", e), f"'{text}' with {env}: {short_exc(e)}")
                    return res
                if not abs(got - ref) <= RTOL * mag + ATOL:
                    res.violate("wrong-value:eval_node", f"'{text}' with {env}: eval_node gives {got!r}, arithmetic says "
                                                         f"{float(ref)!r} (style {si})")
                    return res
                res.info["values_checked"] = res.info.get("values_checked", 0) + 1
        return res

    def sample(self, case):
        return {"variants": [E.render(case["ast"], s) for s in styles_for(case["k"])], "names": case["names"],
                "probe0": case["probes"][0]}


class CodegenArm(Arm):
    name = "codegen"
    budget = {"quick": 1500, "thorough": 12000}
    min_per_shard = 20

    def strategy(self, ctx):
        return expr_case(max_depth=4)

    def run(self, case, ctx):
        from ..model import compile_vf
        res = CaseResult()
        ex = excluded_by("C05", case, ctx)
        if ex:
            res.excluded = ex
            return res
        res.labels = labels_of(case) + [f"notation:{case['notation']}"]
        res.nontrivial = nontrivial_ast(case["ast"])
        ast, names = case["ast"], case["names"]
        lhs = "q" if "q" not in names else "qq0"
        spec = {"ops": {"op0": {"vars": [[lhs, "state", 0.25]] + [[n, "const", 0.5 + 0.1 * i] for i, n in enumerate(names)],
                                "eqs": [[lhs, True, ast, case["notation"]]], "out": lhs}},
                "ntypes": {"nt0": {"ops": ["op0"], "ov": {}}}, "nodes": [["p0", "nt0"]], "edges": [], "etypes": {}}
        used = E.variables(ast)
        for si, sty in enumerate(styles_for(case["k"])):
            try:
                c = compile_vf(spec, vectorize=False, style=sty)
            except HarnessError:
                raise
            except Exception as e:
                res.violate(exc_bucket("compile-raises", e), f"q' = {E.render(ast, sty)} : {short_exc(e)}")
                return res
            for vals in case["probes"]:
                env = dict(zip(names, vals))
                with np.errstate(all="ignore"):
                    ref, mag = E.evaluate_mag(ast, env)
                if not np.isfinite(ref) or abs(ref) > 1e6:
                    res.info["discarded_numerics"] = res.info.get("discarded_numerics", 0) + 1
                    continue
                ov = {}
                for n in names:
                    key = f"p0/op0/{n}"
                    if key in c.names:
                        ov[key] = env[n]
                    elif n in used and not _vanishes(ast, n, env):
                        res.violate("missing-argument", f"variable {n} of q' = {E.render(ast, sty)} is not an argument "
                                                        f"of the generated function ({c.names})")
                        return res
                try:
                    got = c.call(0.0, c.y0, ov)
                except Exception as e:
                    res.violate(exc_bucket("call-raises", e), f"q' = {E.render(ast, sty)} : {short_exc(e)}")
                    return res
                if got.size != 1 or not abs(got[0] - ref) <= RTOL * mag + ATOL:
                    res.violate("wrong-value:codegen", f"q' = {E.render(ast, sty)} with {env}: generated function gives "
                                                       f"{got!r}, arithmetic says {float(ref)!r}")
                    return res
                res.info["values_checked"] = res.info.get("values_checked", 0) + 1
        return res

    sample = EvalNodeArm.sample


def _vanishes(ast, name, env):
    """variable does not influence the value (e.g. x - x): sympy may legitimately drop it"""
    e1 = dict(env)
    e2 = dict(env)
    e2[name] = env[name] + 0.7319
    with np.errstate(all="ignore"):
        try:
            return abs(E.evaluate(ast, e1) - E.evaluate(ast, e2)) < 1e-13
        except Exception:
            return False


ARMS = [EvalNodeArm(), CodegenArm()]
