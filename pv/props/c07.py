"""C07 - parameter and initial-value overrides reach exactly their targets."""
import copy
import warnings

import numpy as np
from hypothesis import strategies as st

from .. import gen
from ..arm import Arm, guarded_step, ops_machine
from ..common import CaseResult, HarnessError, exc_bucket, short_exc
from ..model import RefModel, build_circuit
from .c06 import match
from .c08 import ordered_nodes

PROPERTY = {
    "id": "C07",
    "rule": ("Hypothesis stateful histories (RuleBasedStateMachine) over circuit instances whose nodes share NodeTemplate "
             "and OperatorTemplate objects (flat and hierarchical circuits, per-node operator overrides given at "
             "construction, optionally one sub-CircuitTemplate object used for two branches) plus a sibling circuit built "
             "from the very same template objects: up to 8 operations drawn from update_var(node_vars={path: scalar}), "
             "update_var(node_vars={wildcard path: array}) (one value per addressed node in path order), "
             "update_var(edge_vars=[(s, t, {weight})]), fork (update_template() without in_place with no / identical "
             "node or circuit updates, or deepcopy; the fork becomes a further instance with its own model), "
             "get_run_func(node_values=... / edge_values=...) (transient) and plain observations, each addressed to one "
             "of the instances. Model: per instance a dict path -> value and a weight list, updated as the statement "
             "says. After every operation all instances are deep-copied together and compiled (vectorize off): argument "
             "values by frontend name, y0 by the returned state map and the vector field at y0 (edge weights) must equal "
             "the instance's model -- for the addressed instance and for every other one. At the end the main instances are "
             "run vectorized for two Euler steps and compared with the reference recurrence. Non-trivial = the history "
             "contains an override addressed to a node that shares a template object (node template, or sub-circuit "
             "template, or forked instance) with a non-addressed node; distinct = canonical JSON of (spec, operations)."),
    "assumptions": [
        "circuits whose initial compilation raises are not judged (C01)",
        "edge updates address the first edge between two variables (the documented update_var form)",
        "observations compile deep copies, so that the state a compilation remembers on a template (by design) does not "
        "mask later initial-value overrides",
    ],
}

DT = 0.01


def _idx(ix):
    return int(ix[0]) if isinstance(ix, (tuple, list)) else int(ix)


def duplicate(spec):
    """flat spec -> two branches s0/s1 with identical content, inner edges per branch, one cross edge"""
    s = copy.deepcopy(spec)
    nodes, edges = [], []
    for b in ("s0", "s1"):
        nodes += [[f"{b}/{p}", nt] for p, nt in spec["nodes"]]
        for e in spec["edges"]:
            e2 = copy.deepcopy(e)
            e2["scope"] = b
            edges.append(e2)
    if spec["edges"]:
        e = copy.deepcopy(spec["edges"][0])
        e["s"], e["t"], e["scope"], e["w"] = "s0/" + e["s"], "s1/" + e["t"], "", 0.75
        edges.append(e)
    s["nodes"], s["edges"] = nodes, edges
    return s


class Inst:
    def __init__(self, label, circ, values, weights, rename=None, spec=None):
        self.label, self.circ, self.values, self.weights, self.rename, self.spec = label, circ, values, weights, rename, spec


class Interp:
    def __init__(self, init):
        from .. import isolate
        from pyrates import CircuitTemplate
        self.res = CaseResult()
        self.dead = False
        base = init["spec"]
        self.dup = bool(init.get("dup")) and all("/" not in p for p, _ in base["nodes"])
        self.spec = duplicate(base) if self.dup else base
        self.rm = RefModel(self.spec)
        isolate.reset()
        if self.dup and init.get("share_sub", True):
            sub = build_circuit(base, name="sub")
            top = [e for e in self.spec["edges"] if not e.get("scope")]
            self.circ = CircuitTemplate(name="main", path=None, circuits={"s0": sub, "s1": sub},
                                        edges=[(e["s"], e["t"], None, {"weight": float(e["w"])}) for e in top])
        else:
            self.circ = build_circuit(self.spec, name="main")
        flat = {}

        def collect(c, pre=""):
            for k, n in c.nodes.items():
                flat[f"{pre}{k}"] = n
            for k, sub_ in c.circuits.items():
                collect(sub_, f"{pre}{k}_")
        collect(self.circ)
        sibling = CircuitTemplate(name="sibling", path=None, nodes=dict(flat))
        sib_spec = copy.deepcopy(self.spec)
        sib_spec["edges"] = []
        sib_spec["nodes"] = [[p.replace("/", "_"), nt] for p, nt in self.spec["nodes"]]
        values = dict(self.rm.values)
        self.insts = [Inst("main", self.circ, dict(values), [e["w"] for e in self.rm.edges], None, self.spec),
                      Inst("sibling", sibling, dict(values), None, {p: p.replace("/", "_") for p, _ in self.spec["nodes"]},
                           sib_spec)]
        self.kinds = []
        self.shared_hit = False
        self.n_obs = 0
        nt_of = dict(self.spec["nodes"])
        self.nt_of = nt_of
        self.vec_ok = None
        self._observe("initial", initial=True)
        if not self.dead:
            self.vec_ok = self._vec_check(initial=True)

    # ------------------------------------------------------------------------------------------------
    def _compile(self, circ, **kw):
        from .. import isolate
        isolate.reset(remove_files=False)
        with warnings.catch_warnings():
            warnings.simplefilter("ignore")
            return circ.get_run_func("pv_c07", step_size=DT, vectorize=False, in_place=True, clear=False, verbose=False,
                                     float_precision="float64", backend="default", **kw)

    def _model_rm(self, inst, values, weights):
        spec2 = copy.deepcopy(inst.spec)
        if weights is not None:
            for e, w in zip(spec2["edges"], weights):
                e["w"] = w
        return RefModel(spec2)

    def _observe(self, what, initial=False, transient=None):
        """transient: (instance index, {spec path: value}, {edge index: weight}, kwargs for get_run_func)"""
        if self.dead:
            return
        self.n_obs += 1
        copies = copy.deepcopy([i.circ for i in self.insts])
        for j, (inst, circ) in enumerate(zip(self.insts, copies)):
            expected = dict(inst.values)
            weights = None if inst.weights is None else list(inst.weights)
            kw = {}
            if transient and transient[0] == j:
                expected.update(transient[1])
                for ei, w in transient[2].items():
                    weights[ei] = w
                kw = transient[3]
            tag = "own" if (self.addressed == j or initial) else "other-instance"
            try:
                func, args, names, svm = self._compile(circ, **kw)
            except HarnessError:
                raise
            except Exception as e:
                if initial:
                    self.res.rejected = f"initial compile raises: {type(e).__name__}"
                else:
                    self.res.violate(exc_bucket(f"compile-raises-after:{what}", e),
                                     f"{inst.label} after {self.kinds}: {short_exc(e)}")
                self.dead = True
                return
            y0 = np.asarray(args[1], dtype=float).ravel()
            for path, val in expected.items():
                node, o, v = path.rsplit("/", 2)
                key = f"{inst.rename[node]}/{o}/{v}" if inst.rename else path
                kind = self.rm.kind[path]
                got = None
                if kind == "state":
                    if key in svm:
                        got = float(y0[_idx(svm[key])])
                elif key in names:
                    got = float(np.asarray(args[names.index(key)], dtype=float).ravel()[0])
                if got is None:
                    continue
                if abs(got - val) > 1e-12 * (1 + abs(val)):
                    self.res.violate(f"wrong-value:{what}:{tag}:{kind}",
                                     f"{inst.label}: {key} = {got!r}, expected {val!r} after {self.kinds} "
                                     f"(instance addressed by the last operation: "
                                     f"{self.insts[self.addressed].label if self.addressed is not None else '-'})")
                    self.dead = True
                    return
            # vector field at y0 (edge weights, and that every value is really used)
            rm2 = self._model_rm(inst, expected, weights)
            params = {p: v for p, v in expected.items() if self.rm.kind[p] in ("const", "input")}
            y = {p: expected[p] for p in self.rm.state_paths}
            if inst.rename:
                ren = lambda p: "/".join([inst.rename[p.rsplit("/", 2)[0]]] + p.rsplit("/", 2)[1:])
                params = {ren(p): v for p, v in params.items()}
                y = {ren(p): v for p, v in y.items()}
            try:
                ref = rm2.vf(y, params)
                dy = np.zeros_like(np.asarray(args[2]))
                out = np.array(func(0, y0.copy(), dy, *args[3:]), dtype=float).ravel()
            except Exception as e:
                if initial:
                    self.res.rejected = f"initial evaluation raises: {type(e).__name__}"
                    self.dead = True
                    return
                continue
            for p in rm2.state_paths:
                if p not in svm:
                    continue
                got = out[_idx(svm[p])]
                rv, mag = ref[p]
                if not np.isfinite(rv):
                    continue
                if abs(got - rv) > 1e-9 * mag + 1e-10:
                    if initial:
                        self.res.rejected = "initial vector field deviates from the reference (C01)"
                    else:
                        self.res.violate(f"wrong-vector-field:{what}:{tag}",
                                         f"{inst.label}: d/dt {p} = {got!r}, expected {rv!r} with edge weights {weights} "
                                         f"after {self.kinds}")
                    self.dead = True
                    return

    def _vec_check(self, initial=False):
        """vectorized two-step Euler run of the main-like instances vs. the reference; True = agrees"""
        copies = copy.deepcopy([i.circ for i in self.insts])
        for inst, circ in zip(self.insts, copies):
            if inst.weights is None:
                continue
            from .. import isolate
            isolate.reset(remove_files=False)
            rm2 = self._model_rm(inst, inst.values, inst.weights)
            sp = rm2.state_paths
            params = {p: v for p, v in inst.values.items() if self.rm.kind[p] in ("const", "input")}
            y = {p: inst.values[p] for p in sp}
            try:
                ref = rm2.simulate(3, DT, y0=y, params=params)[:3]
            except Exception:
                return False
            if not np.all(np.isfinite(ref)):
                return False
            try:
                with warnings.catch_warnings():
                    warnings.simplefilter("ignore")
                    df = circ.run(simulation_time=3 * DT, step_size=DT, outputs={f"v{i}": p for i, p in enumerate(sp)},
                                  solver="euler", vectorize=True, verbose=False, clear=False, in_place=True,
                                  float_precision="float64")
                a = np.column_stack([np.asarray(df[f"v{i}"], dtype=float) for i in range(len(sp))])
            except HarnessError:
                raise
            except Exception as e:
                if initial:
                    return False
                self.res.violate(exc_bucket("vectorized-run-raises-after-overrides", e),
                                 f"{inst.label} after {self.kinds}: {short_exc(e)}")
                return False
            if a.shape != ref.shape or np.max(np.abs(a - ref)) > 1e-8 * (1 + np.max(np.abs(ref))):
                if initial:
                    return False
                j = int(np.argmax(np.max(np.abs(a - ref), axis=0))) if a.shape == ref.shape else 0
                self.res.violate("wrong-vectorized-rows",
                                 f"{inst.label}: vectorized run rows for {sp[j]}: {a[:, j].tolist() if a.shape == ref.shape else a.shape} "
                                 f"vs reference {ref[:, j].tolist()} after {self.kinds}")
                return False
        return True

    # ------------------------------------------------------------------------------------------------
    addressed = None

    def _pick(self, op, main_like=True):
        cand = [j for j, i in enumerate(self.insts) if (i.weights is not None) or not main_like]
        return cand[op.get("j", 0) % len(cand)]

    def _target(self, op, kinds=("const", "state")):
        cand = sorted(p for p, kd in self.rm.kind.items() if kd in kinds)
        return cand[op["i"] % len(cand)]

    def _wild(self, op, path, need_all=False):
        node, o, v = path.rsplit("/", 2)
        comps = node.split("/")
        pat = ["all"] if op["i"] % 2 else (comps[:-1] + ["all"])
        matched = [p for p in ordered_nodes(self.spec) if match("/".join(pat), p)]
        nodes = [p for p in matched if f"{p}/{o}/{v}" in self.rm.kind]
        if need_all and len(nodes) != len(matched):
            return None, None
        return "/".join(pat + [o, v]), nodes

    def step(self, op):
        if self.dead:
            return
        k = op["op"]
        self.kinds.append(k)
        transient = None
        try:
            with warnings.catch_warnings():
                warnings.simplefilter("ignore")
                if k == "update_scalar":
                    j = self._pick(op, main_like=False)
                    inst = self.insts[j]
                    path = self._target(op)
                    node, o, v = path.rsplit("/", 2)
                    key = f"{inst.rename[node]}/{o}/{v}" if inst.rename else path
                    inst.circ.update_var(node_vars={key: float(op["val"])})
                    inst.values[path] = float(op["val"])
                    self._note_shared([node])
                elif k == "update_wildcard":
                    j = self._pick(op)
                    inst = self.insts[j]
                    path = self._target(op)
                    _, o, v = path.rsplit("/", 2)
                    key, nodes = self._wild(op, path)
                    if op.get("array") and len(nodes) > 1:
                        vals = [round(float(op["val"]) + 0.1 * (n + 1), 4) for n in range(len(nodes))]
                        inst.circ.update_var(node_vars={key: np.asarray(vals)})
                    else:
                        vals = [float(op["val"])] * len(nodes)
                        inst.circ.update_var(node_vars={key: float(op["val"])})
                    for p, val in zip(nodes, vals):
                        inst.values[f"{p}/{o}/{v}"] = val
                    self._note_shared(nodes)
                elif k == "update_edge":
                    j = self._pick(op)
                    inst = self.insts[j]
                    top = [(i, e) for i, e in enumerate(self.rm.edges) if not self.spec["edges"][i].get("scope")]
                    if top:
                        i, e = top[op["i"] % len(top)]
                        first = next(n for n, e2 in top if e2["s"] == e["s"] and e2["t"] == e["t"])
                        inst.circ.update_var(edge_vars=[(e["s"], e["t"], {"weight": float(op["val"])})])
                        inst.weights[first] = float(op["val"])
                        if len(self.insts) > 2:
                            self.shared_hit = True
                elif k == "add_zero_edge_in_place":
                    # update_template(edges=..., in_place=True) with an edge that changes nothing (weight 0 next to an
                    # existing edge of the same pair): later edge updates must still reach the edges of the template
                    j = self._pick(op)
                    inst = self.insts[j]
                    top = [(i, e) for i, e in enumerate(self.rm.edges) if not self.spec["edges"][i].get("scope")
                           and not self.spec["edges"][i].get("et") and self.spec["edges"][i].get("d") is None]
                    if top:
                        i, e = top[op["i"] % len(top)]
                        inst.circ.update_template(edges=[(e["s"], e["t"], None, {"weight": 0.0})], in_place=True)
                        inst.extra_pairs = getattr(inst, "extra_pairs", set()) | {(e["s"], e["t"])}
                elif k == "fork":
                    j = self._pick(op)
                    inst = self.insts[j]
                    c = inst.circ
                    mode = op["i"] % 3
                    if len(self.insts) < 4:
                        if mode == 0:
                            new = c.update_template()
                        elif mode == 1:
                            if c.circuits:
                                nm = sorted(c.circuits)[0]
                                new = c.update_template(circuits={nm: c.circuits[nm]})
                            else:
                                nm = sorted(c.nodes)[0]
                                new = c.update_template(nodes={nm: c.nodes[nm]})
                        else:
                            new = copy.deepcopy(c)
                        self.insts.append(Inst(f"fork{len(self.insts) - 1}(of {inst.label}, mode {mode})", new,
                                               dict(inst.values), list(inst.weights), None, self.spec))
                        self.insts[-1].extra_pairs = set(getattr(inst, "extra_pairs", ()))
                elif k == "apply_values":
                    j = self._pick(op)
                    inst = self.insts[j]
                    path = self._target(op)
                    _, o, v = path.rsplit("/", 2)
                    key, nodes = self._wild(op, path, need_all=True) if op.get("array") else (None, None)
                    tv, tw, kw = {}, {}, {}
                    if key and len(nodes) > 1:
                        vals = [round(float(op["val"]) - 0.1 * (n + 1), 4) for n in range(len(nodes))]
                        kw["node_values"] = {key: np.asarray(vals)}
                        tv = {f"{p}/{o}/{v}": val for p, val in zip(nodes, vals)}
                        self._note_shared(nodes)
                    else:
                        kw["node_values"] = {path: float(op["val"])}
                        tv = {path: float(op["val"])}
                        self._note_shared([path.rsplit("/", 2)[0]])
                    pairs = {}
                    for i, e in enumerate(self.rm.edges):
                        pairs.setdefault((e["s"], e["t"]), []).append(i)
                    # (edge_values address all edges of a (source, target) pair: only pairs with a single edge are used)
                    single = sorted(i for pr, v_ in pairs.items() if len(v_) == 1 and pr not in getattr(inst, "extra_pairs", ())
                                    for i in v_ if not self.spec["edges"][i].get("scope"))
                    if single and op["i"] % 3 == 0:
                        i = single[op["i"] % len(single)]
                        e = self.rm.edges[i]
                        kw["edge_values"] = {(e["s"], e["t"]): {"weight": -float(op["val"])}}
                        tw = {i: -float(op["val"])}
                    transient = (j, tv, tw, kw)
                elif k == "observe":
                    j = None
                else:
                    raise HarnessError(k)
                self.addressed = j
        except HarnessError:
            raise
        except Exception as e:
            self.res.violate(exc_bucket(f"op-raises:{k}", e), f"{k}({op}) after {self.kinds[:-1]}: {short_exc(e)}")
            self.dead = True
            return
        self._observe(k, transient=transient)

    def _note_shared(self, nodes):
        if len(self.insts) > 2:
            self.shared_hit = True
            return
        for n in nodes:
            if any(m not in nodes and self.nt_of[m] == self.nt_of[n] for m in self.nt_of):
                self.shared_hit = True
            if self.dup and not all(("s1/" + m.split("/", 1)[1]) in nodes for m in nodes if m.startswith("s0/")):
                self.shared_hit = True

    def finish(self):
        if not self.dead and self.vec_ok and any(k != "observe" for k in self.kinds):
            self._vec_check()
        self.res.nontrivial = self.shared_hit
        self.res.labels = sorted({"op:" + k for k in self.kinds}) + (["shared_template_hit"] if self.shared_hit else []) \
            + (["shared_subcircuit"] if self.dup else []) + (["forked"] if len(self.insts) > 2 else []) \
            + (["vec_judged"] if self.vec_ok else [])
        self.res.info = {"observations": self.n_obs, "instances": len(self.insts)}
        return self.res


def op_strategy(it):
    return st.fixed_dictionaries({"op": st.sampled_from(["update_scalar", "update_scalar", "update_wildcard",
                                                         "update_wildcard", "update_edge", "update_edge", "fork", "apply_values",
                                                         "observe", "add_zero_edge_in_place"]),
                                  "i": st.integers(0, 40), "j": st.integers(0, 3), "array": st.booleans(),
                                  "val": st.sampled_from([0.37, -0.62, 1.45, 2.2, -1.1, 0.05])})


def init_strategy():
    base = gen.model_spec({"leak": True, "max_types": 2, "max_ops": 2, "max_nodes": 4, "min_nodes": 2, "max_edges": 3,
                           "expr_depth": 2, "depths": [0, 0, 0, 1], "collision": False, "max_alg": 1, "edge_reuse": False,
                           "funcs": ["tanh", "sigmoid", "exp"], "pow": False})
    return st.fixed_dictionaries({"spec": base, "dup": st.sampled_from([False, False, True]),
                                  "share_sub": st.sampled_from([True, True, False])})


class HistoryArm(Arm):
    name = "history"
    kind = "stateful"
    budget = {"quick": 240, "thorough": 3000}
    steps = {"quick": 8, "thorough": 10}
    min_per_shard = 10
    case_timeout = 400
    required_labels = ("op:update_scalar", "op:update_wildcard", "op:update_edge", "op:fork", "op:apply_values",
                       "shared_template_hit", "shared_subcircuit", "forked", "vec_judged")

    def machine(self, ctx, sink, budget_hook):
        return ops_machine(init_strategy(), op_strategy, lambda init: Interp(init), sink, budget_hook, max_ops=8)

    def run(self, case, ctx):
        it = Interp(case["init"])
        for op in case["ops"]:
            guarded_step(it, op)
        return it.finish()

    def sample(self, case):
        return {"nodes": case["init"]["spec"]["nodes"], "dup": case["init"].get("dup"), "ops": case["ops"]}


# ----------------------------------------------------------------------------------------------------------------------
# edge attribute dictionaries that carry values for edge-operator variables
# ----------------------------------------------------------------------------------------------------------------------
class EdgeValuesArm(Arm):
    """nodes x' = -k*x + inp; edges either plain or through ONE shared EdgeTemplate (m = g*tanh(cc*s)); values for g / cc
    come from the template-level operator variations, from the edge attribute dictionaries given at construction and from
    update_var(edge_vars=...).  Reference: dx_t = -k*x_t + sum_e w_e * g_e * tanh(cc_e * x_s)."""
    name = "edge_values"
    budget = {"quick": 400, "thorough": 5000}
    min_per_shard = 10
    required_labels = ("shared_edge_template", "per_edge_operator_value", "update_var_edge_operator_value", "vec", "novec")

    def strategy(self, ctx):
        @st.composite
        def case(draw):
            n = draw(st.integers(2, 4))
            pairs = [(i, j) for i in range(n) for j in range(n)]
            chosen = draw(st.lists(st.sampled_from(pairs), min_size=1, max_size=5, unique=True))
            val = st.sampled_from([0.7, 1.3, -0.4, 2.1, 0.25])
            edges = []
            for (i, j) in chosen:
                tmpl = draw(st.sampled_from([True, True, False]))
                ev = {}
                if tmpl:
                    for key in ("eop/g", "eop/cc"):
                        if draw(st.integers(0, 2)) == 0:
                            ev[key] = draw(val)
                edges.append({"s": i, "t": j, "w": draw(st.sampled_from([2.0, 0.5, -1.5, 1.0])), "tmpl": tmpl, "ev": ev})
            upd = []
            templ = [k_ for k_, e in enumerate(edges) if e["tmpl"]]
            for _ in range(draw(st.integers(0, 2))):
                if templ:
                    upd.append({"e": draw(st.sampled_from(templ)), "key": draw(st.sampled_from(["eop/g", "eop/cc", "weight"])),
                                "val": draw(val)})
            return {"n": n, "edges": edges, "tv": draw(st.sampled_from([{}, {}, {"g": 1.1}, {"cc": 0.6, "g": 0.9}])),
                    "updates": upd, "vectorize": draw(st.booleans()), "same_keys": draw(st.booleans())}
        from ..finding_predicates import repair_case
        return case()

    def run(self, case, ctx):
        from .. import isolate
        from ..findings import excluded_by
        from pyrates import CircuitTemplate, EdgeTemplate, NodeTemplate, OperatorTemplate
        res = CaseResult()
        case = copy.deepcopy(case)
        if case.get("same_keys"):
            # every templated edge names the same set of keys (values default to the template's)
            keys = sorted({k_ for e in case["edges"] for k_ in e["ev"]})
            dflt = {"eop/g": case["tv"].get("g", 1.5), "eop/cc": case["tv"].get("cc", 0.8)}
            for e in case["edges"]:
                if e["tmpl"]:
                    for k_ in keys:
                        e["ev"].setdefault(k_, dflt[k_])
        n, vec = case["n"], bool(case["vectorize"])
        # the same network in the spec format, so that the predicates of the listed findings (C01/C04 shapes) apply
        case["cfg"] = {"vectorize": vec}
        case["spec"] = {"ops": {"nop": {"vars": [["x", "state", 0.5], ["k", "const", 2.0], ["inp", "input", 0.0]],
                                        "eqs": [["x", True, ["bin", "+", ["bin", "*", ["neg", ["var", "k"]], ["var", "x"]],
                                                             ["var", "inp"]], 1]], "out": "x"}},
                        "ntypes": {"nt": {"ops": ["nop"], "ov": {}}}, "nodes": [[f"p{i}", "nt"] for i in range(n)],
                        "edges": [{"s": f"p{e['s']}/nop/x", "t": f"p{e['t']}/nop/inp", "w": e["w"], "d": None, "sp": None,
                                   "et": None, "scope": ""} for e in case["edges"]], "etypes": {}}
        ex = excluded_by("C07", case, ctx)
        # plain edges and edges through the template are grouped separately by the vectorisation
        all_edges = case["spec"]["edges"]
        for sel in (False, True):
            if ex:
                break
            case["spec"]["edges"] = [se for se, e in zip(all_edges, case["edges"]) if bool(e["tmpl"]) == sel]
            ex = excluded_by("C07", case, ctx)
        case["spec"]["edges"] = all_edges
        if ex:
            res.excluded = ex
            return res
        isolate.reset()
        nop = OperatorTemplate(name="nop", path=None, equations=["d/dt * x = -k*x + inp"],
                               variables={"x": "output(0.5)", "k": 2.0, "inp": "input(0.0)"})
        eop = OperatorTemplate(name="eop", path=None, equations=["m = g*tanh(cc*s)"],
                               variables={"m": "output(0.0)", "g": 1.5, "cc": 0.8, "s": "input(0.0)"})
        nt = NodeTemplate(name="nt", path=None, operators=[nop])
        et = EdgeTemplate(name="et", path=None, operators={eop: dict(case["tv"])} if case["tv"] else [eop])
        x0 = [round(0.3 + 0.27 * i, 3) for i in range(n)]
        edges = []
        for e in case["edges"]:
            d = {"weight": e["w"]}
            d.update(e["ev"])
            edges.append((f"p{e['s']}/nop/x", f"p{e['t']}/nop/inp", et if e["tmpl"] else None, d))
        model = [dict(w=e["w"], g=e["ev"].get("eop/g", case["tv"].get("g", 1.5)), cc=e["ev"].get("eop/cc", case["tv"].get("cc", 0.8)))
                 for e in case["edges"]]
        lab = ["vec" if vec else "novec"]
        if sum(1 for e in case["edges"] if e["tmpl"]) >= 2:
            lab.append("shared_edge_template")
        if any(e["ev"] for e in case["edges"]):
            lab.append("per_edge_operator_value")
        try:
            with warnings.catch_warnings():
                warnings.simplefilter("ignore")
                circ = CircuitTemplate(name="net", path=None, nodes={f"p{i}": nt for i in range(n)}, edges=edges)
                circ.update_var(node_vars={f"p{i}/nop/x": x0[i] for i in range(n)})
                for u in case["updates"]:
                    e = case["edges"][u["e"]]
                    circ.update_var(edge_vars=[(f"p{e['s']}/nop/x", f"p{e['t']}/nop/inp", {u["key"]: u["val"]})])
                    model[u["e"]][{"eop/g": "g", "eop/cc": "cc", "weight": "w"}[u["key"]]] = u["val"]
                    if u["key"] != "weight":
                        lab.append("update_var_edge_operator_value")
                func, args, names, svm = circ.get_run_func("pv_c07e", step_size=DT, vectorize=vec, in_place=False, clear=True,
                                                           verbose=False, float_precision="float64")
                y0 = np.asarray(args[1], dtype=float).ravel()
                out = np.array(func(0, y0.copy(), np.zeros_like(np.asarray(args[2])), *args[3:]), dtype=float).ravel()
        except HarnessError:
            raise
        except Exception as e:
            res.labels = sorted(set(lab))
            res.violate(exc_bucket(f"raises:{'vec' if vec else 'novec'}", e),
                        f"edges {[(e_['s'], e_['t'], e_['tmpl'], e_['ev']) for e_ in case['edges']]} template values {case['tv']} "
                        f"updates {case['updates']}: {short_exc(e)}")
            return res
        res.labels = sorted(set(lab))
        res.nontrivial = "shared_edge_template" in lab and ("per_edge_operator_value" in lab or "update_var_edge_operator_value" in lab)
        want = []
        for i in range(n):
            v = -2.0 * x0[i]
            for e, m_ in zip(case["edges"], model):
                if e["t"] == i:
                    v += m_["w"] * (m_["g"] * np.tanh(m_["cc"] * x0[e["s"]]) if e["tmpl"] else x0[e["s"]])
            want.append(v)
        got = []
        for i in range(n):
            key = f"p{i}/nop/x"
            if key in svm:
                got.append(float(out[_idx(svm[key])]))
            else:
                allk = [k_ for k_ in svm if k_.endswith("nop/x")]
                ix = svm[allk[0]]
                got.append(float(out[int(ix[0]) + i]) if isinstance(ix, (tuple, list)) else float("nan"))
            if abs(float(y0[_idx(svm[key])] if key in svm else x0[i]) - x0[i]) > 1e-12:
                res.violate("wrong-initial-value", f"{key}: y0 differs from the value set by update_var")
                return res
        if np.max(np.abs(np.array(got) - np.array(want))) > 1e-9 * (1 + np.max(np.abs(want))):
            res.violate(f"wrong-vector-field:{'vec' if vec else 'novec'}",
                        f"dx = {got}, reference {want}; edges (s, t, template, w, g, cc) "
                        f"{[(e['s'], e['t'], e['tmpl'], m_['w'], m_['g'], m_['cc']) for e, m_ in zip(case['edges'], model)]}; "
                        f"attribute dicts {[e['ev'] for e in case['edges']]}, template values {case['tv']}, updates {case['updates']}")
        return res

    def sample(self, case):
        return case


ARMS = [HistoryArm(), EdgeValuesArm()]
