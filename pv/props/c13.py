"""C13 - results do not depend on what the process did before."""
import copy
import json
import os
import subprocess
import sys
import warnings

import numpy as np
from hypothesis import strategies as st

from .. import expr as E
from .. import gen
from ..arm import Arm, guarded_step, ops_machine
from ..common import CaseResult, HarnessError, exc_bucket, short_exc
from ..model import RefModel, build_circuit

PROPERTY = {
    "id": "C13",
    "rule": ("Hypothesis stateful histories (RuleBasedStateMachine) over 2-3 models in one process WITHOUT any cache reset "
             "between operations: the models are generated specs that deliberately share operator names (different "
             "equations / different defaults / identical structure), node-template names, generated file and function "
             "names, and optionally the very same template objects (sibling circuit). Up to 9 operations: (re)construct, "
             "get_run_func (backends default/torch/jax/fortran), get_jacobian_func, run (vectorize on/off, in_place True/False, clear True/False, with/without an extrinsic input, one of two "
             "file names), update_var (node and edge), to_yaml + from_yaml (one file name for all models), clear(), clear_frontend_caches(), each addressed to one model. Oracle: every "
             "result observed for a model in the history (y0, argument values by name, vector field at y0, run rows, "
             "Jacobian at y0) must equal the result of the same operation when only that model's own operations are "
             "executed, in the same order, in a FRESH Python interpreter (subprocess), to 1e-12 relative; an operation that "
             "raises only after the history is a violation; functions returned earlier are re-evaluated at the end and "
             "must return what they returned first. Non-trivial = a judged result on one model is preceded by a "
             "compile/run of another model; distinct = canonical JSON of (specs, operations)."),
    "assumptions": [
        "a model whose own operations fail in the fresh interpreter is not judged (C01)",
        "state that a template remembers about its OWN earlier simulations (by design) is reproduced by the reference, "
        "which executes the model's own operations; only influence across models is flagged",
    ],
}
PROPERTY["rule"] += ' The first two models may be built from one pool of template objects; the sweep arm changes float precision between the two translations and has an int_spelling variant.'

DT = 0.01


def _idx(ix):
    return int(ix[0]) if isinstance(ix, (tuple, list)) else int(ix)


def _np(x):
    try:
        import torch
        if isinstance(x, torch.Tensor):
            return x.detach().cpu().numpy()
    except Exception:
        pass
    return np.asarray(x)


class ModelRunner:
    """Executes operations for ONE model; used identically in the history process and in the fresh interpreter."""

    def __init__(self, spec, pool=None, file_prefix=""):
        self.spec = spec
        self.pool = pool            # template objects shared with another model of the history (None: own objects)
        self.file_prefix = file_prefix
        self.rm = RefModel(spec)
        self.circ = None
        self.kept = []
        self.build()

    def build(self):
        self.circ = build_circuit(self.spec, name="net", pool=self.pool)

    def _outputs(self):
        return {f"v{i}": p for i, p in enumerate(self.rm.state_paths)}

    def do(self, op):
        """returns a JSON-able result: {"ok": True, "obs": {...}} or {"ok": False, "err": type}"""
        k = op["op"]
        try:
            with warnings.catch_warnings():
                warnings.simplefilter("ignore")
                return {"ok": True, "obs": self._do(k, op)}
        except HarnessError:
            raise
        except Exception as e:
            if os.environ.get("PV_C13_DEVLOG"):
                with open(os.environ["PV_C13_DEVLOG"], "a") as fh:
                    fh.write(f"--- cwd={os.getcwd()} files={sorted(os.listdir('.'))[:60]}\n{e}\n")
            return {"ok": False, "err": type(e).__name__, "msg": short_exc(e)}

    def _do(self, k, op):
        c = self.circ
        vec = bool(op.get("vectorize"))
        if k == "build":
            self.build()
            return {}
        if k == "update_var":
            cand = sorted(p for p, kd in self.rm.kind.items() if kd in ("const", "state"))
            if op.get("const_only"):
                cand = sorted(p for p, kd in self.rm.kind.items() if kd == "const") or cand
            path = cand[op["i"] % len(cand)]
            c.update_var(node_vars={path: float(op["val"])})
            return {}
        if k == "yaml_roundtrip":
            # every model uses the same file name: a later model must not be served the earlier model's templates
            from pyrates import CircuitTemplate
            os.makedirs("c13_yaml", exist_ok=True)
            c.to_yaml("c13_yaml/model.yaml")
            self.circ = CircuitTemplate.from_yaml("c13_yaml/model/net")
            return {}
        if k == "update_edge":
            top = [e for e in self.spec["edges"] if not e.get("scope")]
            if top:
                e = top[op["i"] % len(top)]
                c.update_var(edge_vars=[(e["s"], e["t"], {"weight": float(op["val"])})])
            return {}
        if k == "get_run_func":
            from ..model import Compiled
            be = op.get("backend", "default")
            kw = {}
            func, args, names, svm = c.get_run_func(op.get("fname", "pv_f"), step_size=DT, vectorize=vec,
                                                    in_place=bool(op.get("in_place")), clear=bool(op.get("clear")),
                                                    verbose=False, float_precision=op.get("precision", "float64"), backend=be,
                                                    file_name=(self.file_prefix + op.get("file", "pv_gen_a")))
            comp = Compiled(func, args, names, svm, backend=be, inplace=True)
            y0 = comp.y0
            out = comp.call(0.0, y0)
            obs = {"y0": {}, "vf": {}, "args": {}}
            for p in self.rm.state_paths:
                if p in svm:
                    obs["y0"][p] = float(y0[_idx(svm[p])])
                    obs["vf"][p] = float(out[_idx(svm[p])])
            if not vec:
                import re
                for n, a in zip(names[3:], args[3:]):
                    a = np.asarray(_np(a), dtype=float).ravel()
                    if a.size == 1:
                        # (generated in_edge operators are numbered by a process-wide counter: compare them as a multiset)
                        n2 = re.sub(r"in_edge_\d+", "in_edge_#", n)
                        obs["args"].setdefault(n2, []).append(float(a[0]))
                for v in obs["args"].values():
                    v.sort()
            self.kept.append((comp, out.copy(), op.get("precision", "float64")))
            return obs
        if k == "run":
            kw = {}
            ins = sorted(p for p, kd in self.rm.kind.items() if kd == "input")
            if op.get("inp") and ins:
                # extrinsic input (the generated input operators are numbered by a process-wide label cache)
                kw["inputs"] = {ins[op["i"] % len(ins)]: np.array([0.3, -0.2, 0.5, 0.1])}
            df = c.run(simulation_time=4 * DT, step_size=DT, outputs=self._outputs(), solver="euler", vectorize=vec, **kw,
                       verbose=False, clear=bool(op.get("clear")), in_place=bool(op.get("in_place")),
                       float_precision=op.get("precision", "float64"), file_name=(self.file_prefix + op.get("file", "pv_gen_a")),
                       backend=op.get("backend", "default") if op.get("backend") != "fortran" else "default")
            return {"rows": {p: [float(x) for x in np.asarray(df[f"v{i}"], dtype=float).ravel()]
                             for i, p in enumerate(self.rm.state_paths)}}
        if k == "jac":
            res = c.get_jacobian_func("pv_j", step_size=DT, vectorize=False, in_place=bool(op.get("in_place")),
                                      clear=bool(op.get("clear")), verbose=False, float_precision="float64",
                                      backend="default", file_name=(self.file_prefix + op.get("file", "pv_gen_a")) + "_j")
            jf, jargs = res[0], res[1]
            y0 = np.asarray(jargs[1], dtype=float).ravel()
            J = np.asarray(jf(0, y0.copy(), *jargs[2:]), dtype=float)
            return {"jac_sorted": sorted(round(float(x), 12) for x in J.ravel()), "shape": list(J.shape)}
        if k == "failed_compile":
            # a translation that fails half way (an edge into a variable that does not exist) and is caught by the user:
            # what it leaves behind must not reach the models handled afterwards
            from pyrates import CircuitTemplate
            rm = self.rm
            if not rm.state_paths or any("/" in p for p, _ in self.spec["nodes"]):
                return {}
            bad = build_circuit(self.spec, name="net_bad")
            src = rm.state_paths[op["i"] % len(rm.state_paths)]
            node = self.spec["nodes"][0][0]
            o = self.spec["ntypes"][self.spec["nodes"][0][1]]["ops"][0]
            try:
                bad = bad.update_template(edges=[(src, f"{node}/{o}/no_such_variable", None, {"weight": 1.0})])
                bad.get_run_func("pv_bad", step_size=DT, vectorize=vec, in_place=False, clear=False, verbose=False,
                                 float_precision="float64", backend="default", file_name=self.file_prefix + "pv_gen_bad")
            except Exception:
                pass
            return {}
        if k == "clear":
            if c._ir is not None:
                c.clear()
            return {}
        if k == "clear_frontend_caches":
            from pyrates import clear_frontend_caches
            clear_frontend_caches(clear_template_cache=bool(op.get("in_place")), clear_ir_cache=bool(op.get("clear")))
            return {}
        raise HarnessError(k)

    def recheck_kept(self):
        bad = []
        for n, (comp, first, prec) in enumerate(self.kept):
            try:
                out = comp.call(0.0, comp.y0)
                tol = 1e-12 if prec == "float64" else 1e-6
                if out.shape != first.shape or np.max(np.abs(out - first)) > tol * (1 + np.max(np.abs(first))):
                    bad.append((n, first.tolist(), out.tolist()))
            except Exception as e:
                bad.append((n, first.tolist(), short_exc(e)))
        return bad


def fresh_results(spec, ops, timeout=240):
    env = dict(os.environ)
    here = os.path.dirname(os.path.dirname(os.path.dirname(os.path.abspath(__file__))))
    p = subprocess.run([sys.executable, "-m", "pv.fresh"], input=json.dumps({"spec": spec, "ops": ops}),
                       capture_output=True, text=True, env=env, timeout=timeout, cwd=here)
    if "@@RESULT@@" not in p.stdout:
        raise HarnessError(f"fresh interpreter failed: rc={p.returncode} {p.stderr[-400:]}")
    return json.loads(p.stdout.split("@@RESULT@@", 1)[1])


def _close(a, b, rtol=1e-12):
    if isinstance(a, dict) and isinstance(b, dict):
        if set(a) != set(b):
            return False, f"keys differ: {sorted(set(a) ^ set(b))[:4]}"
        for k in a:
            ok, why = _close(a[k], b[k], rtol)
            if not ok:
                return False, f"{k}: {why}"
        return True, ""
    if isinstance(a, list) and isinstance(b, list):
        if len(a) != len(b):
            return False, f"length {len(a)} vs {len(b)}"
        for i, (x, y) in enumerate(zip(a, b)):
            ok, why = _close(x, y, rtol)
            if not ok:
                return False, f"[{i}] {why}"
        return True, ""
    if isinstance(a, (int, float)) and isinstance(b, (int, float)):
        if a == b or (a != a and b != b):
            return True, ""
        if abs(a - b) <= rtol * (1 + max(abs(a), abs(b))):
            return True, ""
        return False, f"{a!r} (history) vs {b!r} (fresh interpreter)"
    return (a == b), f"{a!r} vs {b!r}"


_HISTORY_COUNTER = 0

if os.environ.get("PV_C13_DEVLOG"):
    _orig_run = subprocess.run

    def _logged_run(cmd, *a, **k):
        r = _orig_run(cmd, *a, **k)
        if isinstance(cmd, list) and "numpy.f2py" in cmd and r.returncode != 0:
            with open(os.environ["PV_C13_DEVLOG"] + ".f2py", "a") as fh:
                fh.write(f"==== {cmd}\n{(r.stdout or '')[-6000:]}\n")
                try:
                    fh.write(open(cmd[-1]).read())
                except Exception as e:
                    fh.write(str(e))
        return r
    subprocess.run = _logged_run


class Interp:
    def __init__(self, init):
        from .. import isolate
        self.res = CaseResult()
        self.dead = False
        self.specs = init["specs"]
        isolate.reset()            # the history starts from a clean process state; nothing is reset afterwards
        # file names are shared by the models of ONE history (that is part of the property) but not by the histories that
        # a worker process executes one after the other: compiled extension modules cannot be unloaded, and a history must
        # stay a function of its own operations (it is confirmed by a replay in a fresh process)
        global _HISTORY_COUNTER
        _HISTORY_COUNTER += 1
        prefix = f"h{_HISTORY_COUNTER}_"
        # "shared": the first two models are built from the very same OperatorTemplate/NodeTemplate/EdgeTemplate objects
        pool = {} if init.get("shared") else None
        self.shared = pool is not None
        self.runners = [ModelRunner(s, file_prefix=prefix, pool=(pool if (pool is not None and i < 2) else None))
                        for i, s in enumerate(self.specs)]
        self.log = [[] for _ in self.specs]     # per model: (op, result)
        self.order = []                          # (model index, op kind)
        self.kinds = []

    def step(self, op):
        if self.dead:
            return
        m = op["m"] % len(self.specs)
        self.kinds.append(f"{op['op']}@{m}")
        r = self.runners[m].do(op)
        self.log[m].append((op, r))
        self.order.append((m, op["op"], len(self.log[m]) - 1))

    def finish(self):
        heavy = ("get_run_func", "run", "jac")
        judged = 0
        nontrivial = False
        labels = set()
        for m, spec in enumerate(self.specs):
            if not any(op["op"] in heavy for op, _ in self.log[m]):
                continue
            ops = [op for op, _ in self.log[m]]
            try:
                ref = fresh_results(spec, ops)
            except subprocess.TimeoutExpired:
                self.res.rejected = "fresh interpreter timed out (inconclusive)"
                continue
            for n, ((op, got), want) in enumerate(zip(self.log[m], ref)):
                if op["op"] not in heavy:
                    if got["ok"] != want["ok"] and want["ok"]:
                        self.res.violate(exc_bucket_name(f"raises-only-after-history:{op['op']}", got),
                                         f"model {m}: {op} works in a fresh interpreter but raised after {self.kinds}: "
                                         f"{got.get('msg')}")
                        break
                    if not want["ok"]:
                        break
                    continue
                if not want["ok"]:
                    break          # the model itself cannot be handled: later results of this model are not judged
                # was another model compiled/run before this operation?
                pos = next(i for i, (mm, kk, nn) in enumerate(self.order) if mm == m and nn == n)
                before_other = any(mm != m and kk in heavy for mm, kk, _ in self.order[:pos])
                judged += 1
                if before_other:
                    nontrivial = True
                labels.add("op:" + op["op"])
                if not got["ok"]:
                    self.res.violate(exc_bucket_name(f"raises-only-after-history:{op['op']}", got),
                                     f"model {m}: {op} works in a fresh interpreter but raised after the history "
                                     f"{self.kinds[:pos]}: {got.get('msg')}")
                    break
                # (single precision results are compared at single precision: whether intermediate results of a float32
                #  model are kept in double precision may depend on earlier float64 compilations of the same backend)
                ok, why = _close(got["obs"], want["obs"], 1e-12 if op.get("precision", "float64") == "float64" else 2e-5)
                if not ok:
                    self.res.violate(f"differs-from-fresh-interpreter:{op['op']}:{'vec' if op.get('vectorize') else 'novec'}",
                                     f"model {m}, {op}: {why}; history before it: {self.kinds[:pos]}")
                    break
        for m, r in enumerate(self.runners):
            bad = r.recheck_kept()
            if bad:
                n, first, now = bad[0]
                self.res.violate("earlier-function-changed", f"model {m}: function returned by its compile #{n} first "
                                                            f"returned {first}, at the end of {self.kinds} it returns {now}")
        if judged == 0 and not self.res.rejected:
            self.res.rejected = "no judged result"
        self.res.nontrivial = nontrivial
        if any(k.startswith("failed_compile@") for k in self.kinds):
            labels.add("op:failed_compile")
        self.res.labels = sorted(labels) + [f"models:{len(self.specs)}"] + (["shared_template_objects"] if self.shared else [])
        self.res.info = {"judged_results": judged}
        return self.res


def exc_bucket_name(prefix, got):
    return f"{prefix}:{got.get('err')}"


# --------------------------------------------------------------------------------------------------------------------
def variant(draw, spec):
    """a second model that shares names with `spec`"""
    s = copy.deepcopy(spec)
    mode = draw(st.sampled_from(["equation", "defaults", "nodes", "same", "weights"]))
    if mode == "equation":
        # same operator name, different equation: scale the rhs of one equation
        o = draw(st.sampled_from(sorted(s["ops"])))
        eqs = s["ops"][o]["eqs"]
        i = draw(st.integers(0, len(eqs) - 1))
        eqs[i][2] = ["bin", "*", ["num", draw(st.sampled_from([0.5, 2.0, -1.5]))], eqs[i][2]]
    elif mode == "defaults":
        for o in sorted(s["ops"]):
            for v in s["ops"][o]["vars"]:
                if v[1] in ("const", "state") and draw(st.booleans()):
                    v[2] = round(float(v[2]) * 0.5 + 0.3, 4)
    elif mode == "weights":
        for e in s["edges"]:
            e["w"] = round(float(e["w"]) * -0.5 + 0.25, 4)
    elif mode == "nodes":
        if len(s["nodes"]) > 1 and draw(st.booleans()):
            drop = s["nodes"][-1][0]
            s["nodes"] = s["nodes"][:-1]
            rm = RefModel(spec)
            keep = [i for i, e in enumerate(rm.edges) if not (e["s"].startswith(drop + "/") or e["t"].startswith(drop + "/"))]
            s["edges"] = [s["edges"][i] for i in keep]
        else:
            p, nt = s["nodes"][0]
            comps = p.split("/")
            comps[-1] = comps[-1] + "b"
            s["nodes"].append(["/".join(comps), nt])
    return s, mode


def init_strategy():
    @st.composite
    def init(draw):
        cfg = {"leak": True, "max_types": 2, "max_ops": 2, "max_nodes": 3, "min_nodes": 1, "max_edges": 3,
               "expr_depth": 2, "depths": [0, 0, 0, 1], "collision": False, "max_alg": 1, "edge_reuse": False,
               "funcs": ["tanh", "sigmoid", "exp"], "pow": False}
        a = draw(gen.model_spec(cfg))
        b, mode = variant(draw, a)
        specs = [a, b]
        if draw(st.integers(0, 2)) == 0:
            specs.append(draw(gen.model_spec(cfg)))
        # operators and node types of the two models are the same declarations: optionally the same Python objects
        shared = mode in ("same", "weights", "nodes") and draw(st.booleans())
        return {"specs": specs, "variant": mode, "shared": shared}
    return init()


def op_strategy(it):
    return st.fixed_dictionaries({
        "op": st.sampled_from(["get_run_func", "get_run_func", "run", "run", "jac", "update_var", "update_edge", "build",
                               "clear", "clear_frontend_caches", "yaml_roundtrip", "failed_compile"]),
        "backend": st.sampled_from(["default"] * 5 + ["torch", "jax", "fortran", "fortran"]),
        "m": st.integers(0, 2), "vectorize": st.booleans(), "in_place": st.booleans(), "clear": st.booleans(),
        "inp": st.sampled_from([False, False, True]), "precision": st.sampled_from(["float64", "float64", "float64", "float32"]),
        "file": st.sampled_from(["pv_gen_a", "pv_gen_a", "pv_gen_b"]), "fname": st.sampled_from(["pv_f", "pv_g"]),
        "i": st.integers(0, 20), "val": st.sampled_from([0.37, -0.62, 1.45])})


class HistoryArm(Arm):
    name = "history"
    kind = "stateful"
    budget = {"quick": 160, "thorough": 2000}
    steps = {"quick": 9, "thorough": 10}
    min_per_shard = 8
    case_timeout = 900
    required_labels = ("op:get_run_func", "op:run", "op:jac", "op:failed_compile")

    def machine(self, ctx, sink, budget_hook):
        return ops_machine(init_strategy(), op_strategy, lambda init: Interp(init), sink, budget_hook, max_ops=9)

    def run(self, case, ctx):
        it = Interp(case["init"])
        for op in case["ops"]:
            guarded_step(it, op, limit=120)
        return it.finish()

    def sample(self, case):
        return {"variant": case["init"].get("variant"), "nodes": [s["nodes"] for s in case["init"]["specs"]],
                "ops": case["ops"]}


class SweepArm(Arm):
    """hand-written-sweep shape: the same structure compiled twice in a row with changed values, same backend, same names"""
    name = "sweep"
    budget = {"quick": 64, "thorough": 800}
    min_per_shard = 4
    case_timeout = 900
    required_labels = ("backend:jax", "backend:torch", "backend:default", "backend:fortran", "precision_change:fortran")

    def strategy(self, ctx):
        @st.composite
        def case(draw):
            cfg = {"leak": True, "max_types": 1, "max_ops": 2, "max_nodes": 4, "min_nodes": 2, "max_edges": 7,
                   "min_edges": 3, "expr_depth": 2, "depths": [0], "collision": False, "max_alg": 1, "overrides": False,
                   "funcs": ["tanh", "sigmoid", "exp"], "pow": False}
            a = draw(gen.model_spec(cfg))
            be = draw(st.sampled_from(["jax", "jax", "torch", "default", "fortran", "fortran"]))
            # (values reach a compiled Fortran routine as arguments; what a stale routine gets wrong are the equations)
            mode = draw(st.sampled_from(["weights", "weights", "defaults", "equation", "int_spelling"] if be != "fortran" else
                                        ["equation", "equation", "defaults"]))
            if draw(st.booleans()):
                # dense coupling of one variable pair over all nodes (a weight matrix in the vectorized network)
                rm = RefModel(a)
                nodes = [p for p, _ in a["nodes"]]
                p0 = nodes[0]
                tg = sorted(k[len(p0) + 1:] for k, kd in rm.kind.items() if kd == "input" and k.startswith(p0 + "/"))
                sr = sorted(k[len(p0) + 1:] for k in rm.state_paths if k.startswith(p0 + "/"))
                if tg and sr:
                    tv, sv = draw(st.sampled_from(tg)), draw(st.sampled_from(sr))
                    a["edges"] = [{"s": f"{s_}/{sv}", "t": f"{t_}/{tv}", "w": round(0.2 + 0.17 * i - 0.31 * j, 4), "d": None,
                                   "sp": None, "et": None, "scope": ""}
                                  for i, t_ in enumerate(nodes) for j, s_ in enumerate(nodes)]
            b = copy.deepcopy(a)
            if mode == "weights":
                for e in b["edges"]:
                    e["w"] = round(float(e["w"]) * -0.5 + 0.25, 4)
            elif mode == "defaults":
                for o in sorted(b["ops"]):
                    for v in b["ops"][o]["vars"]:
                        if v[1] in ("const", "state"):
                            v[2] = round(float(v[2]) * 0.5 + 0.3, 4)
            elif mode == "int_spelling":
                # the first model declares its parameters with integer literals (k: 2), the second one the same numbers as
                # floats (k: 2.0) and then sets one of them to a non-integer value: what a number means must not depend
                # on how an earlier model spelled it
                for o in sorted(a["ops"]):
                    for k_, v in enumerate(a["ops"][o]["vars"]):
                        if v[1] == "const":
                            v[2] = float(1 + (k_ % 3))
                b = copy.deepcopy(a)
                for o in sorted(a["ops"]):
                    a["ops"][o]["int_decl"] = True
            else:
                o = sorted(b["ops"])[0]
                b["ops"][o]["eqs"][0][2] = ["bin", "*", ["num", 0.5], b["ops"][o]["eqs"][0][2]]
            vec = draw(st.sampled_from([True, True, False]))
            kind = draw(st.sampled_from(["get_run_func", "get_run_func", "run"])) if be != "fortran" else "get_run_func"
            base = {"op": kind, "vectorize": vec, "in_place": draw(st.booleans()), "clear": draw(st.booleans()),
                    "file": "pv_gen_a", "fname": "pv_f", "i": 0, "val": 0.37, "backend": be}
            # the two translations may ask for different precisions (helper functions, literals and casts of the second must
            # be those of its own precision)
            precs = draw(st.sampled_from([("float64", "float64"), ("float64", "float64"), ("float32", "float64"),
                                          ("float64", "float32")]))
            ops = [dict(base, m=0, precision=precs[0]), dict(base, m=1, precision=precs[1])]
            if draw(st.booleans()):
                ops.append(dict(base, m=0, precision=precs[0]))
            if mode == "int_spelling":
                ops.insert(1, dict(base, op="update_var", m=1, i=draw(st.integers(0, 20)), val=0.37, const_only=True))
            return {"init": {"specs": [a, b], "variant": mode}, "ops": ops}
        return case()

    def run(self, case, ctx):
        it = Interp(case["init"])
        for op in case["ops"]:
            guarded_step(it, op, limit=180)
        res = it.finish()
        res.labels = list(res.labels) + ["backend:" + case["ops"][0]["backend"], "variant:" + case["init"]["variant"]]
        if case["ops"][0].get("precision", "float64") != case["ops"][1].get("precision", "float64"):
            res.labels.append("precision_change:" + case["ops"][0]["backend"])
        return res

    def sample(self, case):
        return {"variant": case["init"].get("variant"), "nodes": case["init"]["specs"][0]["nodes"], "ops": case["ops"]}


class SameNameArm(Arm):
    """ONE model whose node types use different operator templates that carry the same name (different equations and
    default values): every node must get the equations and values of its own operator (the operator cache is keyed by
    name).  Oracle: the reference interpreter of the spec with distinct operator names."""
    name = "same_name_operators"
    budget = {"quick": 60, "thorough": 600}
    min_per_shard = 3
    case_timeout = 120

    def strategy(self, ctx):
        @st.composite
        def case(draw):
            cfg = {"leak": True, "min_types": 2, "max_types": 2, "max_ops": 1, "max_nodes": 3, "min_nodes": 2, "max_edges": 0,
                   "expr_depth": 2, "depths": [0], "collision": False, "max_alg": 1, "overrides": False,
                   "funcs": ["tanh", "sigmoid", "exp"], "pow": False}
            spec = gen.uniquify_init(draw(gen.model_spec(cfg)))
            return {"spec": spec, "cfg": {"vectorize": draw(st.booleans())}}
        return case()

    def run(self, case, ctx):
        from pyrates import CircuitTemplate, NodeTemplate
        from .. import isolate
        from ..model import build_operator, Compiled
        res = CaseResult()
        spec, vec = case["spec"], case["cfg"]["vectorize"]
        used = sorted({o for _, nt in spec["nodes"] for o in spec["ntypes"][nt]["ops"]})
        if len(used) < 2 or any(len(spec["ntypes"][nt]["ops"]) != 1 for _, nt in spec["nodes"]):
            res.rejected = "needs two node types with one operator each"
            return res
        # (shapes of listed findings about vectorisation are not this arm's subject)
        from ..findings import PREDICATES
        for fid in ("F-04b",):
            try:
                if fid in PREDICATES and PREDICATES[fid](case):
                    res.excluded = fid
                    return res
            except Exception:
                pass
        rm = RefModel(spec)
        res.nontrivial = True
        res.labels = ["vec" if vec else "novec"]
        isolate.reset()
        try:
            ops = {o: build_operator("opx", spec["ops"][o]) for o in used}
            nts = {}
            for nt in sorted({n for _, n in spec["nodes"]}):
                o = spec["ntypes"][nt]["ops"][0]
                ov = dict((spec["ntypes"][nt].get("ov") or {}).get(o) or {})
                nts[nt] = NodeTemplate(name=nt, path=None, operators={ops[o]: ov} if ov else [ops[o]])
            circ = CircuitTemplate(name="net", path=None, nodes={p: nts[nt] for p, nt in spec["nodes"]})
            with warnings.catch_warnings():
                warnings.simplefilter("ignore")
                func, args, names, svm = circ.get_run_func("pv_sn", step_size=DT, vectorize=vec, in_place=False, clear=True,
                                                           verbose=False, float_precision="float64", backend="default",
                                                           file_name="pv_gen_sn")
            comp = Compiled(func, args, names, svm, backend="default", inplace=True)
            out = comp.call(0.0, comp.y0)
        except HarnessError:
            raise
        except Exception as e:
            res.violate(exc_bucket("same-name-operators-raise", e), short_exc(e))
            return res
        # (initial values are unique per variable: the pairs (initial value, derivative) identify the variables, whatever
        #  the layout of the - possibly vectorised - state vector)
        ref = rm.vf(rm.y0())
        want = sorted((rm.y0()[p], ref[p][0], ref[p][1], p) for p in rm.state_paths)
        got = sorted(zip(comp.y0.tolist(), out.tolist()))
        if len(got) != len(want):
            res.violate("same-name-operators:state-count", f"{len(got)} state variables, the model has {len(want)}")
            return res
        for (y0w, dw, mag, p), (y0g, dg) in zip(want, got):
            if abs(y0g - y0w) > 1e-12 or abs(dg - dw) > 1e-9 * mag + 1e-10:
                o = spec["ntypes"][dict((a, b) for a, b in spec["nodes"])[p.split("/")[0]]]["ops"][0]
                res.violate("same-name-operators:wrong-values",
                            f"{p} (operator {o} of the spec, named 'opx' like the operator of the other node type): initial "
                            f"value {y0g!r} (declared {y0w!r}), derivative {dg!r} (its own equation gives {dw!r})")
                return res
        return res

    def sample(self, case):
        return {"nodes": case["spec"]["nodes"], "cfg": case["cfg"]}


ARMS = [HistoryArm(), SweepArm(), SameNameArm()]
