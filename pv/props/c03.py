"""C03 - run() returns the numerical solution of the compiled system."""
import numpy as np
from hypothesis import strategies as st

from .. import gen
from ..arm import Arm
from ..common import CaseResult, HarnessError, exc_bucket, short_exc
from ..findings import excluded_by
from ..model import RefModel, compile_vf, run_circuit

PROPERTY = {
    "id": "C03",
    "rule": ("(A, exactness) generated circuits x (steps 1-120, dt, sampling multiple m 1-6, cutoff mostly off-grid) x "
             "solver euler|heun: run() must equal, row by row, my own Euler/Heun loop over the SAME compiled function "
             "(fresh get_run_func of the same spec), started at the declared initial state: row k = iterate k*m, "
             "round(T/dts) rows before cutoff, index k*dts, rows with time<cutoff dropped (rows within 1e-9 of the "
             "cutoff may be present or absent). (B, convergence) the same circuits incl. explicit sin(w*t) forcing "
             "under scipy RK45/RK23/DOP853/LSODA must match the reference interpreter integrated with DOP853 at "
             "rtol 1e-11 within 2e-5*(1+|ref|), and fixed-step solvers must converge to it (error at dt/2 <= 0.75 * "
             "error at dt + floor). Non-trivial = m>=2 or cutoff>0 or a time-dependent term; distinct = canonical JSON "
             "of (spec, T, dt, dts, cutoff, solver)."),
    "assumptions": [
        "Heun exactness is asserted only for autonomous vector fields (no exact claim for explicit-t terms)",
        "adaptive solvers are compared with a tolerance factor, not exactly",
    ],
}


def own_loop(c, steps, dt, solver):
    y = c.y0.copy()
    t0 = int(np.asarray(c.args[0]))
    rows = [y.copy()]
    for i in range(steps):
        f1 = c.call(i + t0, y)
        if solver == "euler":
            y = y + dt * f1
        else:
            yp = y + dt * f1
            f2 = c.call(i + t0, yp)
            y = y + dt / 2 * (f1 + f2)
        rows.append(y.copy())
    return np.array(rows)


def expected_time_rows(T, dts, cutoff):
    n = int(round(T / dts))
    times = np.arange(n) * dts
    return n, times


class FixedArm(Arm):
    name = "fixed_step_exact"
    budget = {"quick": 400, "thorough": 6000}
    min_per_shard = 20
    required_labels = ("m>=2", "cutoff>0", "heun", "euler", "T_not_multiple_of_dts", "cutoff_on_grid")

    def strategy(self, ctx):
        @st.composite
        def case(draw):
            spec = draw(gen.model_spec({"leak": True, "max_types": 2, "max_ops": 2, "max_nodes": 3, "max_edges": 4,
                                        "depths": [0, 0, 1], "expr_depth": 2, "collision": False}))
            dt = draw(st.sampled_from([0.01, 0.005, 0.02, 0.1, 0.001, 0.15]))
            m = draw(st.sampled_from([1, 1, 2, 3, 4, 5, 6]))
            steps = draw(st.integers(1, 120))
            if draw(st.booleans()):
                steps = max(m, (steps // m) * m)
            if int(round(steps / m)) < 1:
                steps = m  # at least one sample must be requested (T >= sampling step size)
            n_rows = max(1, int(round(steps / m)))
            cmode = draw(st.integers(0, 3))
            if cmode == 0:
                cutoff = 0.0
            elif cmode == 1:
                cutoff = (draw(st.integers(0, n_rows)) + 0.5) * m * dt
            elif cmode == 2:
                cutoff = draw(st.integers(0, n_rows)) * (m * dt)
            else:
                cutoff = draw(st.floats(0, 1.2 * steps * dt, allow_nan=False))
            return {"spec": spec, "cfg": {"solver": draw(st.sampled_from(["euler", "heun"])), "dt": dt, "m": m,
                                          "steps": steps, "cutoff": cutoff, "vectorize": draw(st.booleans())}}
        from ..finding_predicates import repair_case
        return case().map(lambda c: repair_case(c, ctx))

    def run(self, case, ctx):
        res = CaseResult()
        ex = excluded_by("C03", case, ctx)
        if ex:
            res.excluded = ex
            return res
        spec, cfg = case["spec"], case["cfg"]
        dt, m, steps, cutoff, solver = cfg["dt"], cfg["m"], cfg["steps"], cfg["cutoff"], cfg["solver"]
        vec = bool(cfg.get("vectorize"))
        T = steps * dt
        dts = m * dt
        rm = RefModel(spec)
        sp = rm.state_paths
        lab = [solver, f"vec={vec}"]
        if m >= 2:
            lab.append("m>=2")
        if cutoff > 0:
            lab.append("cutoff>0")
        if steps % m:
            lab.append("T_not_multiple_of_dts")
        n_exp, times = expected_time_rows(T, dts, cutoff)
        if cutoff > 0 and np.any(np.abs(times - cutoff) <= 1e-9):
            lab.append("cutoff_on_grid")
        res.labels = lab + ["repaired:" + r for r in case.get("_repaired", [])]
        res.nontrivial = m >= 2 or cutoff > 0
        # oracle: own loop over the same compiled function
        try:
            c = compile_vf(spec, vectorize=vec, step_size=dt, solver=solver)
        except HarnessError:
            raise
        except Exception as e:
            res.rejected = f"compile-raises:{type(e).__name__}"
            return res
        try:
            it = own_loop(c, steps, dt, solver)
        except Exception as e:
            res.rejected = f"call-raises:{type(e).__name__}"
            return res
        if not np.all(np.isfinite(it)) or np.max(np.abs(it)) > 1e8:
            res.rejected = "iterates not finite"
            return res
        # positions of the requested variables (layout itself is C01's subject): fingerprint or state_var_map
        pos = c.positions()
        if vec:
            y0 = rm.y0()
            vals = [y0[p] for p in sp]
            if len(set(vals)) != len(vals):
                res.rejected = "initial values not unique (vectorised positions unknown)"
                return res
            colpos = []
            for p in sp:
                hits = np.where(np.abs(c.y0 - y0[p]) < 1e-12)[0]
                if len(hits) != 1:
                    res.rejected = "layout ambiguous"
                    return res
                colpos.append(int(hits[0]))
        else:
            if any(p not in pos for p in sp):
                res.rejected = "layout incomplete (C01)"
                return res
            colpos = [pos[p][0] for p in sp]
        outputs = {f"v{i}": p for i, p in enumerate(sp)}
        try:
            df = run_circuit(spec, T, dt, outputs, solver=solver, vectorize=vec, dts=dts, cutoff=cutoff)
        except HarnessError:
            raise
        except Exception as e:
            res.violate(exc_bucket("run-raises", e),
                        f"run(T={T!r}, dt={dt}, dts={dts!r}, cutoff={cutoff!r}, solver={solver}) raised: {short_exc(e)}")
            return res
        idx = np.asarray(df.index, dtype=float)
        try:
            vals = np.column_stack([np.asarray(df[f"v{i}"], dtype=float) for i in range(len(sp))]) if len(df) else \
                np.zeros((0, len(sp)))
        except Exception as e:
            res.violate("output-shape", f"{short_exc(e)}")
            return res
        keep_must = times >= cutoff + 1e-9
        keep_may = np.abs(times - cutoff) <= 1e-9
        exp_rows = [k for k in range(n_exp) if keep_must[k]]
        may_rows = [k for k in range(n_exp) if keep_may[k]]
        # align returned rows with expected ones through the time index
        got_k = []
        for tval in idx:
            k = int(round(tval / dts))
            if k < 0 or k >= n_exp or abs(tval - k * dts) > 1e-9 * max(1.0, abs(tval)):
                res.violate("time-index", f"index value {tval!r} is not k*dts (dts={dts!r}, rows before cutoff {n_exp}); "
                                          f"index[:5]={idx[:5].tolist()}")
                return res
            got_k.append(k)
        if len(set(got_k)) != len(got_k) or got_k != sorted(got_k):
            res.violate("time-index", f"index not strictly increasing: {idx[:6].tolist()}")
            return res
        missing = [k for k in exp_rows if k not in got_k]
        extra = [k for k in got_k if k not in exp_rows and k not in may_rows]
        if missing or extra:
            res.violate("row-set", f"rows (k) missing {missing[:5]} / unexpected {extra[:5]}: expected round(T/dts)={n_exp} "
                                   f"rows before cutoff={cutoff!r}, got {len(idx)} rows, index[:4]={idx[:4].tolist()}")
            return res
        scale = 1.0 + float(np.max(np.abs(it)))
        for r, k in enumerate(got_k):
            e = it[k * m][colpos]
            if np.max(np.abs(vals[r] - e)) > 1e-11 * scale:
                j = int(np.argmax(np.abs(vals[r] - e)))
                what = "first row is not the initial state" if k == 0 else f"row at t={k * dts:.6g} is not iterate {k * m}"
                # diagnose against neighbouring iterates
                near = [q for q in range(max(0, k * m - 3), min(len(it), k * m + 4))
                        if np.max(np.abs(vals[r] - it[q][colpos])) <= 1e-11 * scale]
                res.violate(f"values:{solver}", f"{what}: {sp[j]} = {vals[r][j]!r}, own {solver} loop gives {e[j]!r} "
                                                f"(matches iterate(s) {near})")
                return res
        res.info["rows_checked"] = res.info.get("rows_checked", 0) + len(got_k)
        return res

    def sample(self, case):
        from ..model import render_eq
        spec = case["spec"]
        return {"ops": {o: [render_eq(*e) for e in od["eqs"]] for o, od in spec["ops"].items()},
                "nodes": spec["nodes"], "edges": [[e["s"], e["t"], e["w"]] for e in spec["edges"]], "cfg": case["cfg"]}


def add_forcing(spec, draw):
    """add c*sin(w*t) to one differential equation"""
    import copy
    spec = copy.deepcopy(spec)
    ops = sorted(spec["ops"])
    o = ops[draw(st.integers(0, len(ops) - 1))]
    des = [e for e in spec["ops"][o]["eqs"] if e[1]]
    e = des[draw(st.integers(0, len(des) - 1))]
    w = draw(st.sampled_from([1.0, 2.0, 5.0, 0.5]))
    c = draw(st.sampled_from([1.0, 0.5, 2.0]))
    f = draw(st.sampled_from(["sin", "cos"]))
    e[2] = ["bin", "+", e[2], ["bin", "*", ["num", c], ["call", f, ["bin", "*", ["num", w], ["t"]]]]]
    return spec


@st.composite
def relaxation_spec(draw):
    """1-2 van der Pol type relaxation oscillators (x' = mu*(x - x**3/3 - w) + u, w' = x/mu), optionally coupled through
    x -> u.  Unlike the contractive generated models these make adaptive solvers reject steps."""
    n = draw(st.integers(1, 2))
    ops, ntypes, nodes = {}, {}, []
    for i in range(n):
        mu = draw(st.sampled_from([3.0, 5.0, 8.0]))
        x0 = draw(st.sampled_from([2.0, 1.0, -1.5, 0.5]))
        X = ["var", "x"]
        ops[f"vdp{i}"] = {
            "vars": [["x", "state", x0], ["w", "state", round(0.1 + 0.2 * i, 3)], ["mu", "const", mu], ["u", "input", 0.0]],
            "eqs": [["x", True, ["bin", "+", ["bin", "*", ["var", "mu"],
                                              ["bin", "-", ["bin", "-", X, ["bin", "/", ["pow", X, 3], ["num", 3.0]]], ["var", "w"]]],
                                 ["var", "u"]], draw(st.integers(0, 2))],
                    ["w", True, ["bin", "/", X, ["var", "mu"]], draw(st.integers(0, 2))]],
            "out": "x"}
        ntypes[f"osc{i}"] = {"ops": [f"vdp{i}"], "ov": {}}
        nodes.append([f"p{i}", f"osc{i}"])
    edges = []
    if n == 2 and draw(st.booleans()):
        edges.append({"s": "p0/vdp0/x", "t": "p1/vdp1/u", "w": draw(st.sampled_from([0.5, -0.3, 1.0])), "d": None, "sp": None,
                      "et": None, "scope": ""})
    return {"ops": ops, "ntypes": ntypes, "nodes": nodes, "edges": edges, "etypes": {}}


class ConvergenceArm(Arm):
    name = "convergence"
    case_timeout = 60
    budget = {"quick": 160, "thorough": 2500}
    min_per_shard = 8
    required_labels = ("time_dependent", "scipy:RK45", "scipy:LSODA", "euler", "heun", "relaxation_oscillator")

    def strategy(self, ctx):
        @st.composite
        def case(draw):
            spec = draw(gen.model_spec({"leak": True, "max_types": 2, "max_ops": 2, "max_nodes": 3, "max_edges": 3,
                                        "depths": [0, 0, 1], "expr_depth": 2, "collision": False,
                                        "funcs": ["sin", "cos", "tanh", "sigmoid", "arctan"], "pow": False}))
            stiff = draw(st.integers(0, 4)) == 0
            if stiff:
                spec = draw(relaxation_spec())
            forced = draw(st.booleans())
            if forced:
                spec = add_forcing(spec, draw)
            solver = draw(st.sampled_from(["scipy:RK45", "scipy:RK23", "scipy:DOP853", "scipy:LSODA"] +
                                          ([] if stiff else ["euler", "heun"])))
            T = draw(st.sampled_from([2.0, 4.0] if stiff else [0.5, 1.0, 2.0]))
            n_out = draw(st.sampled_from([5, 10, 20]))
            return {"spec": spec, "cfg": {"solver": solver, "T": T, "n_out": n_out, "forced": forced, "stiff": stiff,
                                          "vectorize": False, "cutoff": draw(st.sampled_from([0.0, 0.0, 0.25 * T]))}}
        from ..finding_predicates import repair_case
        return case().map(lambda c: repair_case(c, ctx))

    def run(self, case, ctx):
        from scipy.integrate import solve_ivp
        res = CaseResult()
        ex = excluded_by("C03", case, ctx)
        if ex:
            res.excluded = ex
            return res
        spec, cfg = case["spec"], case["cfg"]
        rm = RefModel(spec)
        sp = rm.state_paths
        T, n_out, solver = cfg["T"], cfg["n_out"], cfg["solver"]
        dts = T / n_out
        res.labels = [solver] + (["time_dependent"] if cfg["forced"] else []) + (["relaxation_oscillator"] if cfg.get("stiff") else []) + \
                     ["repaired:" + r for r in case.get("_repaired", [])]
        res.nontrivial = bool(cfg["forced"]) or cfg["cutoff"] > 0 or n_out < T / 1e-3
        y0 = np.array([rm.y0()[p] for p in sp])

        def f(t, y):
            d = rm.vf(dict(zip(sp, y)), t=t)
            return np.array([d[p][0] for p in sp])
        times = np.arange(n_out) * dts
        try:
            with np.errstate(all="ignore"):
                sol = solve_ivp(f, (0.0, T), y0, method="DOP853", rtol=1e-11, atol=1e-13, t_eval=times)
        except Exception as e:
            res.rejected = f"reference integration failed: {type(e).__name__}"
            return res
        if not sol.success or not np.all(np.isfinite(sol.y)) or np.max(np.abs(sol.y)) > 1e4:
            res.rejected = "reference solution not benign"
            return res
        ref = sol.y.T
        outputs = {f"v{i}": p for i, p in enumerate(sp)}
        # models that do not even compile / evaluate are C01's business, not a statement about run()
        try:
            c = compile_vf(spec, vectorize=False, step_size=1e-3, solver="scipy" if solver.startswith("scipy") else solver)
            c.call(0.0 if solver.startswith("scipy") else 0, c.y0)
        except HarnessError:
            raise
        except Exception as e:
            res.rejected = f"model-does-not-compile:{type(e).__name__}"
            return res

        def simulate(dt, solver_name, **kw):
            df = run_circuit(spec, T, dt, dict(outputs), solver=solver_name, vectorize=False, dts=dts,
                             cutoff=cfg["cutoff"], **kw)
            idx = np.asarray(df.index, dtype=float)
            vals = np.column_stack([np.asarray(df[f"v{i}"], dtype=float) for i in range(len(sp))])
            return idx, vals

        def err(idx, vals):
            ks = np.rint(idx / dts).astype(int)
            if np.any(ks < 0) or np.any(ks >= n_out) or np.max(np.abs(idx - ks * dts)) > 1e-9:
                return None
            return float(np.max(np.abs(vals - ref[ks]) / (1.0 + np.abs(ref[ks]))))
        try:
            if solver.startswith("scipy"):
                method = solver.split(":")[1]
                rtol, atol, bound = (1e-6, 1e-8, 8e-5) if cfg.get("stiff") else (1e-8, 1e-10, 2e-5)
                if cfg.get("stiff"):
                    # relaxation oscillators: the error constant of a method is problem dependent, so the bound is also
                    # tied to what the same scipy method achieves on the reference vector field with the same settings
                    with np.errstate(all="ignore"):
                        own = solve_ivp(f, (0.0, T), y0, method=method, rtol=rtol, atol=atol, t_eval=times, first_step=1e-3)
                    if not own.success:
                        res.rejected = "scipy fails on the reference vector field"
                        return res
                    e_own = float(np.max(np.abs(own.y.T - ref) / (1.0 + np.abs(ref))))
                    bound = max(bound, 10 * e_own)
                idx, vals = simulate(1e-3, "scipy", method=method, rtol=rtol, atol=atol)
                e = err(idx, vals)
                if e is None:
                    res.violate("time-index:adaptive", f"index {idx[:5].tolist()} is not k*dts (dts={dts})")
                elif e > bound:
                    res.violate(f"adaptive-solution-off:{'forced' if cfg['forced'] else 'autonomous'}",
                                f"scipy {method} (rtol={rtol:g}): max rel. deviation from the true solution {e:.3g} "
                                f"(> {bound:.3g}) at the returned time points")
            else:
                dt1 = dts / 20
                idx1, v1 = simulate(dt1, solver)
                idx2, v2 = simulate(dt1 / 2, solver)
                e1, e2 = err(idx1, v1), err(idx2, v2)
                if e1 is None or e2 is None:
                    res.violate("time-index:fixed", f"index {idx1[:5].tolist()} is not k*dts (dts={dts})")
                elif e2 > 0.75 * e1 + 1e-7 or e1 > 50 * dt1 * (1.0 + float(np.max(np.abs(ref)))) * 10:
                    res.violate(f"no-convergence:{solver}:{'forced' if cfg['forced'] else 'autonomous'}",
                                f"{solver}: error vs true solution {e1:.3g} at dt={dt1:.4g}, {e2:.3g} at dt/2 "
                                f"(expected to shrink)")
        except HarnessError:
            raise
        except Exception as e:
            res.violate(exc_bucket("run-raises", e), f"run(solver={solver}) raised: {short_exc(e)}")
        return res

    sample = FixedArm.sample


ARMS = [FixedArm(), ConvergenceArm()]
