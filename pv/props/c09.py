"""C09 - discrete edge delays shift the source by round(delay/dt) steps (fixed-step solver)."""
import copy

import numpy as np
from hypothesis import strategies as st

from .. import gen
from ..arm import Arm
from ..common import CaseResult, HarnessError, exc_bucket, short_exc
from ..findings import excluded_by
from ..model import RefModel, run_circuit

PROPERTY = {
    "id": "C09",
    "rule": ("Hypothesis-generated circuits (2-5 nodes, leaky dynamics) whose edges carry delay None or d with "
             "round(d/dt) in 2..7 (values that round up and down), incl. mixtures of delayed and undelayed edges from "
             "one source, several delays per source, per target, the same pair twice; run(solver='euler') with "
             "vectorize on/off must equal the delayed reference recurrence target(k) += w*source(k - round(d/dt)) "
             "(zero before the start) for every state variable and every step. Non-trivial = >=2 distinct delays or a "
             "delayed+undelayed mixture; distinct = canonical JSON of (spec, config)."),
    "assumptions": [
        "only models whose delay-free version agrees with the reference are judged (others: C01/C04)",
        "delays that round to fewer than 2 steps are not generated (outside the property's domain)",
        "Euler only (the ring buffer advances once per vector-field evaluation)",
    ],
}


def add_delays(draw, spec, dt):
    spec = copy.deepcopy(spec)
    Ds = []
    n = len(spec["edges"])
    forced = draw(st.integers(0, max(0, n - 1)))
    for i, e in enumerate(spec["edges"]):
        if i != forced and draw(st.sampled_from([1, 1, 1, 0])) == 0:
            e["d"] = None
            Ds.append(None)
        else:
            D = draw(st.integers(2, 7))
            frac = draw(st.sampled_from([0.0, 0.0, 0.3, -0.3, 0.45, -0.45]))
            e["d"] = round((D + frac) * dt, 10)
            Ds.append(D)
    return spec, Ds


def strip_delays(spec):
    s = copy.deepcopy(spec)
    for e in s["edges"]:
        e["d"] = None
    return s


class DelayArm(Arm):
    name = "euler"
    budget = {"quick": 1200, "thorough": 12000}
    min_per_shard = 20
    required_labels = ("mixed_delayed_undelayed_from_one_source", "two_delays_one_source", "two_delays_one_target",
                       "same_pair_twice", "vec", "novec", "alg_source")

    def strategy(self, ctx):
        @st.composite
        def case(draw):
            base = draw(gen.model_spec({"leak": True, "max_types": 2, "max_ops": 2, "max_nodes": 5, "min_nodes": 2,
                                        "max_edges": 7, "min_edges": 2, "edge_reuse": False, "expr_depth": 2, "max_alg": 1, "max_in": 2,
                                        "depths": [0, 0, 0, 1], "collision": False,
                                        "funcs": ["sin", "cos", "tanh", "sigmoid", "arctan"], "pow": False}))
            from .c08 import ensure_input
            base, _ = ensure_input(base, RefModel(base))
            if not base["edges"]:
                rm_ = RefModel(base)
                tgt = sorted(k for k, kd in rm_.kind.items() if kd == "input")
                src = rm_.state_paths
                base["edges"].append({"s": draw(st.sampled_from(src)), "t": draw(st.sampled_from(tgt)), "w": 2.0,
                                      "d": None, "sp": None, "et": None, "scope": ""})
            base = gen.uniquify_init(base)
            dt = draw(st.sampled_from([0.01, 0.05, 0.1]))
            spec, Ds = add_delays(draw, base, dt)
            return {"spec": spec, "cfg": {"dt": dt, "steps": draw(st.integers(12, 30)),
                                          "vectorize": draw(st.sampled_from([True, False, True]))}}
        from ..finding_predicates import repair_case
        return case().map(lambda c: repair_case(c, ctx))

    def run(self, case, ctx):
        res = CaseResult()
        ex = excluded_by("C09", case, ctx)
        if ex:
            res.excluded = ex
            return res
        spec, cfg = case["spec"], case["cfg"]
        dt, steps, vec = cfg["dt"], cfg["steps"], cfg["vectorize"]
        rm = RefModel(spec)
        sp = rm.state_paths
        # labels
        lab = ["vec" if vec else "novec"]
        by_src, by_tgt, pairs = {}, {}, {}
        for e in rm.edges:
            D = None if e.get("d") is None else int(np.round(e["d"] / dt))
            by_src.setdefault(e["s"], []).append(D)
            by_tgt.setdefault(e["t"], []).append(D)
            pairs.setdefault((e["s"], e["t"]), []).append(D)
            if D is not None and rm.kind[e["s"]] == "alg":
                lab.append("alg_source")
        if any(None in v and any(x is not None for x in v) for v in by_src.values()):
            lab.append("mixed_delayed_undelayed_from_one_source")
        if any(len({x for x in v if x is not None}) >= 2 for v in by_src.values()):
            lab.append("two_delays_one_source")
        if any(len({x for x in v if x is not None}) >= 2 for v in by_tgt.values()):
            lab.append("two_delays_one_target")
        if any(len(v) >= 2 and any(x is not None for x in v) for v in pairs.values()):
            lab.append("same_pair_twice")
        allD = [x for v in by_src.values() for x in v]
        res.labels = sorted(set(lab)) + ["repaired:" + r for r in case.get("_repaired", [])]
        res.nontrivial = len({x for x in allD if x is not None}) >= 2 or \
            (None in allD and any(x is not None for x in allD))
        if not any(x is not None for x in allD):
            res.rejected = "no delayed edge drawn"
            return res
        outputs = {f"v{i}": p for i, p in enumerate(sp)}
        # delay-free baseline
        s0 = strip_delays(spec)
        rm0 = RefModel(s0)
        ref0 = rm0.simulate(steps, dt)[:steps]
        if not np.all(np.isfinite(ref0)) or np.max(np.abs(ref0)) > 1e6:
            res.rejected = "reference not benign"
            return res
        try:
            df0 = run_circuit(s0, steps * dt, dt, dict(outputs), vectorize=vec)
            a0 = np.column_stack([np.asarray(df0[f"v{i}"], dtype=float) for i in range(len(sp))])
        except HarnessError:
            raise
        except Exception as e:
            res.rejected = f"baseline-raises:{type(e).__name__}"
            return res
        if a0.shape != ref0.shape or np.max(np.abs(a0 - ref0)) > 1e-8 * (1 + np.max(np.abs(ref0))):
            res.rejected = "delay-free baseline deviates from reference (C01/C04)"
            return res
        ref = rm.simulate(steps, dt)[:steps]
        if not np.all(np.isfinite(ref)) or np.max(np.abs(ref)) > 1e6:
            res.rejected = "reference not benign"
            return res
        try:
            df = run_circuit(spec, steps * dt, dt, dict(outputs), vectorize=vec)
            a = np.column_stack([np.asarray(df[f"v{i}"], dtype=float) for i in range(len(sp))])
        except HarnessError:
            raise
        except Exception as e:
            res.violate(exc_bucket(f"run-with-delays-raises:{'vec' if vec else 'novec'}", e),
                        f"delays (steps) {[(e['s'], e['t'], None if e.get('d') is None else int(np.round(e['d'] / dt))) for e in rm.edges]}: {short_exc(e)}")
            return res
        scale = 1.0 + float(np.max(np.abs(ref)))
        if a.shape != ref.shape:
            res.violate("shape", f"run returned {a.shape}, expected {ref.shape}")
            return res
        if np.max(np.abs(a - ref)) > 1e-8 * scale:
            j = int(np.argmax(np.max(np.abs(a - ref), axis=0)))
            r = int(np.argmax(np.abs(a[:, j] - ref[:, j]) > 1e-8 * scale))
            res.violate(f"wrong-trajectory:{'vec' if vec else 'novec'}",
                        f"{sp[j]} deviates from the delayed recurrence from row {r} on ({a[r, j]!r} vs {ref[r, j]!r}); "
                        f"edges (src, tgt, delay steps, w): "
                        f"{[(e['s'], e['t'], None if e.get('d') is None else int(np.round(e['d'] / dt)), e['w']) for e in rm.edges]}")
        return res

    def sample(self, case):
        spec = case["spec"]
        return {"nodes": spec["nodes"], "edges": [[e["s"], e["t"], e["w"], e["d"]] for e in spec["edges"]],
                "cfg": case["cfg"]}


ARMS = [DelayArm()]
