"""C09 - discrete edge delays shift the source by round(delay/dt) steps (fixed-step solver)."""
import copy

import numpy as np
from hypothesis import strategies as st

from .. import gen
from ..arm import Arm
from ..common import CaseResult, HarnessError, exc_bucket, short_exc
from ..findings import excluded_by
from ..model import RefModel, run_circuit

PROPERTY = {
    "id": "C09",
    "rule": ("Hypothesis-generated circuits (2-5 nodes, leaky dynamics) whose edges carry delay None or d with "
             "round(d/dt) in 2..7 (values that round up and down), incl. mixtures of delayed and undelayed edges from "
             "one source, several delays per source, per target, the same pair twice; run(solver='euler') with "
             "vectorize on/off must equal the delayed reference recurrence target(k) += w*source(k - round(d/dt)) "
             "(zero before the start) for every state variable and every step. Non-trivial = >=2 distinct delays or a "
             "delayed+undelayed mixture; distinct = canonical JSON of (spec, config)."),
    "assumptions": [
        "only models whose delay-free version agrees with the reference are judged (others: C01/C04)",
        "delays that round to fewer than 2 steps are not generated (outside the property's domain)",
        "Euler only (the ring buffer advances once per vector-field evaluation)",
    ],
}
PROPERTY["rule"] += " A third of the cases use solver='heun' (reference: predictor stage of step k reads source(k-D), corrector stage source(k+1-D)). Arm alg_chain: the delayed source is an algebraic output driven by an edge from an algebraic variable of another node, declared before or after it, with delayed and undelayed targets of one node type."


def add_delays(draw, spec, dt):
    spec = copy.deepcopy(spec)
    Ds = []
    n = len(spec["edges"])
    forced = draw(st.integers(0, max(0, n - 1)))
    for i, e in enumerate(spec["edges"]):
        if i != forced and draw(st.sampled_from([1, 1, 1, 0])) == 0:
            e["d"] = None
            Ds.append(None)
        else:
            D = draw(st.integers(2, 7))
            frac = draw(st.sampled_from([0.0, 0.0, 0.3, -0.3, 0.45, -0.45]))
            e["d"] = round((D + frac) * dt, 10)
            Ds.append(D)
    return spec, Ds


def strip_delays(spec):
    s = copy.deepcopy(spec)
    for e in s["edges"]:
        e["d"] = None
    return s


class DelayArm(Arm):
    name = "euler"
    budget = {"quick": 1200, "thorough": 12000}
    min_per_shard = 20
    required_labels = ("mixed_delayed_undelayed_from_one_source", "two_delays_one_source", "two_delays_one_target",
                       "same_pair_twice", "vec", "novec", "alg_source", "heun", "euler")

    def strategy(self, ctx):
        @st.composite
        def case(draw):
            base = draw(gen.model_spec({"leak": True, "max_types": 2, "max_ops": 2, "max_nodes": 5, "min_nodes": 2,
                                        "max_edges": 7, "min_edges": 2, "edge_reuse": False, "expr_depth": 2, "max_alg": 1, "max_in": 2,
                                        "depths": [0, 0, 0, 1], "collision": False,
                                        "funcs": ["sin", "cos", "tanh", "sigmoid", "arctan"], "pow": False}))
            from .c08 import ensure_input
            base, _ = ensure_input(base, RefModel(base))
            if not base["edges"]:
                rm_ = RefModel(base)
                tgt = sorted(k for k, kd in rm_.kind.items() if kd == "input")
                src = rm_.state_paths
                base["edges"].append({"s": draw(st.sampled_from(src)), "t": draw(st.sampled_from(tgt)), "w": 2.0,
                                      "d": None, "sp": None, "et": None, "scope": ""})
            base = gen.uniquify_init(base)
            dt = draw(st.sampled_from([0.01, 0.05, 0.1]))
            spec, Ds = add_delays(draw, base, dt)
            return {"spec": spec, "cfg": {"dt": dt, "steps": draw(st.integers(12, 30)),
                                          "vectorize": draw(st.sampled_from([True, False, True])),
                                          # Heun evaluates the vector field twice per step: the delay stays d
                                          "solver": draw(st.sampled_from(["euler", "euler", "heun"]))}}
        from ..finding_predicates import repair_case
        return case().map(lambda c: repair_case(c, ctx))

    def run(self, case, ctx):
        res = CaseResult()
        ex = excluded_by("C09", case, ctx)
        if ex:
            res.excluded = ex
            return res
        spec, cfg = case["spec"], case["cfg"]
        dt, steps, vec = cfg["dt"], cfg["steps"], cfg["vectorize"]
        rm = RefModel(spec)
        sp = rm.state_paths
        # labels
        lab = ["vec" if vec else "novec"]
        by_src, by_tgt, pairs = {}, {}, {}
        for e in rm.edges:
            D = None if e.get("d") is None else int(np.round(e["d"] / dt))
            by_src.setdefault(e["s"], []).append(D)
            by_tgt.setdefault(e["t"], []).append(D)
            pairs.setdefault((e["s"], e["t"]), []).append(D)
            if D is not None and rm.kind[e["s"]] == "alg":
                lab.append("alg_source")
        if any(None in v and any(x is not None for x in v) for v in by_src.values()):
            lab.append("mixed_delayed_undelayed_from_one_source")
        if any(len({x for x in v if x is not None}) >= 2 for v in by_src.values()):
            lab.append("two_delays_one_source")
        if any(len({x for x in v if x is not None}) >= 2 for v in by_tgt.values()):
            lab.append("two_delays_one_target")
        if any(len(v) >= 2 and any(x is not None for x in v) for v in pairs.values()):
            lab.append("same_pair_twice")
        allD = [x for v in by_src.values() for x in v]
        res.labels = sorted(set(lab)) + ["repaired:" + r for r in case.get("_repaired", [])]
        res.nontrivial = len({x for x in allD if x is not None}) >= 2 or \
            (None in allD and any(x is not None for x in allD))
        if not any(x is not None for x in allD):
            res.rejected = "no delayed edge drawn"
            return res
        outputs = {f"v{i}": p for i, p in enumerate(sp)}
        # delay-free baseline
        s0 = strip_delays(spec)
        rm0 = RefModel(s0)
        solver = cfg.get("solver", "euler")
        lab.append(solver)
        res.labels = sorted(set(res.labels) | {solver})
        ref0 = rm0.simulate(steps, dt, solver=solver)[:steps]
        if not np.all(np.isfinite(ref0)) or np.max(np.abs(ref0)) > 1e6:
            res.rejected = "reference not benign"
            return res
        try:
            df0 = run_circuit(s0, steps * dt, dt, dict(outputs), vectorize=vec, solver=solver)
            a0 = np.column_stack([np.asarray(df0[f"v{i}"], dtype=float) for i in range(len(sp))])
        except HarnessError:
            raise
        except Exception as e:
            res.rejected = f"baseline-raises:{type(e).__name__}"
            return res
        if a0.shape != ref0.shape or np.max(np.abs(a0 - ref0)) > 1e-8 * (1 + np.max(np.abs(ref0))):
            res.rejected = "delay-free baseline deviates from reference (C01/C04)"
            return res
        ref = rm.simulate(steps, dt, solver=solver)[:steps]
        if not np.all(np.isfinite(ref)) or np.max(np.abs(ref)) > 1e6:
            res.rejected = "reference not benign"
            return res
        try:
            df = run_circuit(spec, steps * dt, dt, dict(outputs), vectorize=vec, solver=solver)
            a = np.column_stack([np.asarray(df[f"v{i}"], dtype=float) for i in range(len(sp))])
        except HarnessError:
            raise
        except Exception as e:
            res.violate(exc_bucket(f"run-with-delays-raises:{'vec' if vec else 'novec'}", e),
                        f"delays (steps) {[(e['s'], e['t'], None if e.get('d') is None else int(np.round(e['d'] / dt))) for e in rm.edges]}: {short_exc(e)}")
            return res
        scale = 1.0 + float(np.max(np.abs(ref)))
        if a.shape != ref.shape:
            res.violate("shape", f"run returned {a.shape}, expected {ref.shape}")
            return res
        if np.max(np.abs(a - ref)) > 1e-8 * scale:
            j = int(np.argmax(np.max(np.abs(a - ref), axis=0)))
            r = int(np.argmax(np.abs(a[:, j] - ref[:, j]) > 1e-8 * scale))
            res.violate(f"wrong-trajectory:{'vec' if vec else 'novec'}",
                        f"{sp[j]} deviates from the delayed recurrence from row {r} on ({a[r, j]!r} vs {ref[r, j]!r}); "
                        f"edges (src, tgt, delay steps, w): "
                        f"{[(e['s'], e['t'], None if e.get('d') is None else int(np.round(e['d'] / dt)), e['w']) for e in rm.edges]}")
        return res

    def sample(self, case):
        spec = case["spec"]
        return {"nodes": spec["nodes"], "edges": [[e["s"], e["t"], e["w"], e["d"]] for e in spec["edges"]],
                "cfg": case["cfg"]}

class AlgChainArm(DelayArm):
    """structured shape: the delayed source is an ALGEBRAIC output that depends, inside the same evaluation, on an incoming
    edge from the algebraic output of another node (declared before or after it); it has delayed and undelayed outgoing
    edges to 2-4 targets of one type (merged under vectorisation).  What is delivered at step k depends on the order in
    which the buffer is rolled, written and read relative to the equations that define the source."""
    name = "alg_chain"
    budget = {"quick": 240, "thorough": 3000}
    min_per_shard = 10
    required_labels = ("mixed_delayed_undelayed_from_one_source", "vec", "novec", "alg_source", "driver_declared_later")

    def strategy(self, ctx):
        @st.composite
        def case(draw):
            f1 = draw(st.sampled_from(["tanh", "sin", "sigmoid"]))
            f2 = draw(st.sampled_from(["sin", "cos", "tanh"]))
            k1 = draw(st.sampled_from([0.5, 1.5, -0.75]))
            ops = {
                "src_op": {"vars": [["x", "state", 0.31], ["inp", "input", 0.0], ["m", "alg", 0.0], ["a", "const", 0.8]],
                           "eqs": [["m", False, ["bin", "+", ["call", f1, ["var", "inp"]], ["bin", "*", ["num", k1], ["var", "x"]]], 0],
                                   ["x", True, ["bin", "+", ["bin", "*", ["neg", ["var", "a"]], ["var", "x"]], ["var", "inp"]], 0]],
                           "out": "m"},
                "drv_op": {"vars": [["z", "state", -0.42], ["g", "alg", 0.0], ["b", "const", 1.3]],
                           "eqs": [["g", False, ["call", f2, ["bin", "*", ["var", "b"], ["var", "z"]]], 0],
                                   ["z", True, ["bin", "-", ["num", 0.7], ["bin", "*", ["var", "b"], ["var", "z"]]], 0]],
                           "out": "g"},
                "tgt_op": {"vars": [["r", "state", 0.1], ["rin", "input", 0.0], ["c", "const", 1.1]],
                           "eqs": [["r", True, ["bin", "+", ["bin", "*", ["neg", ["var", "c"]], ["var", "r"]], ["var", "rin"]], 0]],
                           "out": "r"}}
            ntypes = {"src_t": {"ops": ["src_op"], "ov": {}}, "drv_t": {"ops": ["drv_op"], "ov": {}},
                      "tgt_t": {"ops": ["tgt_op"], "ov": {}}}
            n_t = draw(st.integers(2, 4))
            n_src = draw(st.sampled_from([1, 1, 2]))
            nodes = [[f"s{i}", "src_t"] for i in range(n_src)] + [[f"t{i}", "tgt_t"] for i in range(n_t)] + [["d0", "drv_t"]]
            nodes = list(draw(st.permutations(nodes)))
            dt = draw(st.sampled_from([0.01, 0.05]))
            edges = []
            for i in range(n_src):
                edges.append({"s": "d0/drv_op/g", "t": f"s{i}/src_op/inp", "w": draw(st.sampled_from([1.0, 2.0, -1.5])), "d": None,
                              "sp": None, "et": None, "scope": ""})
            for j in range(n_t):
                D = draw(st.sampled_from([None, 2, 3, 5]))
                if j == 0:
                    D = D or 3
                if j == 1:
                    D = None
                edges.append({"s": f"s{draw(st.integers(0, n_src - 1))}/src_op/m", "t": f"t{j}/tgt_op/rin",
                              "w": round(0.4 + 0.37 * j * (-1) ** j, 3), "d": None if D is None else round(D * dt, 6), "sp": None,
                              "et": None, "scope": ""})
            if draw(st.booleans()):
                # the driver is itself driven by a target (a loop through state variables only)
                edges.append({"s": "t0/tgt_op/r", "t": "s0/src_op/inp", "w": 0.5, "d": None, "sp": None, "et": None, "scope": ""})
            edges = list(draw(st.permutations(edges)))
            spec = gen.uniquify_init({"ops": ops, "ntypes": ntypes, "nodes": nodes, "edges": edges, "etypes": {}})
            return {"spec": spec, "cfg": {"dt": dt, "steps": draw(st.integers(12, 24)),
                                          "vectorize": draw(st.sampled_from([True, True, False])),
                                          "solver": draw(st.sampled_from(["euler", "euler", "heun"]))}}
        from ..finding_predicates import repair_case
        return case().map(lambda c: repair_case(c, ctx))

    def run(self, case, ctx):
        res = super().run(case, ctx)
        order = [p for p, _ in case["spec"]["nodes"]]
        if order.index("d0") > min(i for i, p in enumerate(order) if p.startswith("s")):
            res.labels = sorted(set(res.labels) | {"driver_declared_later"})
        return res


ARMS = [DelayArm(), AlgChainArm()]
