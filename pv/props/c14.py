"""C14 - read-only and copy-making operations leave a template unchanged."""
import copy
import os
import warnings

import numpy as np
from hypothesis import strategies as st

from .. import gen
from ..arm import Arm, ops_machine
from ..common import CaseResult, HarnessError, exc_bucket, short_exc
from ..findings import excluded_by
from ..model import RefModel, build_circuit

PROPERTY = {
    "id": "C14",
    "rule": ("Hypothesis stateful histories (RuleBasedStateMachine) over one CircuitTemplate built from a generated "
             "spec (flat or hierarchical, shared NodeTemplate/OperatorTemplate objects, per-node overrides) plus a sibling "
             "circuit sharing the same template objects: up to 8 operations drawn from run / get_run_func / "
             "get_jacobian_func with in_place=False (vectorize switched between calls), get_nodes, get_edges, get_edge, "
             "collect_edges, get_node_template, __getitem__, to_yaml, deepcopy, update_template without in_place. After "
             "every operation a deep structural snapshot (equations, variable declarations, operator variations, edge "
             "lists and attributes, sub-circuits, of the template, its sibling and all shared template objects) must equal "
             "the snapshot taken before the history; consecutive run(in_place=False) results must be identical; a later "
             "operation failing because of state an earlier read-only call left behind is a violation. Non-trivial = >=2 "
             "operations one of which is to_yaml, get_edges/collect_edges on a hierarchical template, or a compile; "
             "distinct = canonical JSON of (spec, operation list)."),
    "assumptions": [
        "the first occurrence of each operation must succeed on a fresh template for the history to be judged (a model "
        "that cannot be compiled at all is C01's subject)",
    ],
}

OPS = ["run", "run", "get_run_func", "get_jacobian_func", "get_nodes", "get_edges", "get_edge", "collect_edges",
       "get_node_template", "getitem", "to_yaml", "deepcopy", "update_template", "copy_then_update", "derive_operator"]


def snapshot(circ, seen=None):
    """deep structural snapshot of a CircuitTemplate (plain data)"""
    def op_snap(op):
        return {"name": op.name, "eqs": list(op.equations), "vars": {k: _plain(v) for k, v in op.variables.items()}}

    def node_snap(nt):
        return {"name": nt.name, "ops": [[op_snap(op), {k: _plain(v) for k, v in (var or {}).items()}]
                                         for op, var in nt.operators.items()]}

    def edge_snap(e):
        s, t, tmpl, d = e[0], e[1], e[2], e[3]
        return [s, t, None if tmpl is None else node_snap(tmpl), {k: _plain(v) for k, v in d.items()}]
    return {"name": circ.name,
            "nodes": {k: node_snap(v) for k, v in circ.nodes.items()},
            "circuits": {k: snapshot(c) for k, c in circ.circuits.items()},
            "edges": [edge_snap(e) for e in circ.edges],
            "n_edge_map": len(circ._edge_map)}


def _plain(v):
    if isinstance(v, np.ndarray):
        return v.tolist()
    if isinstance(v, (np.floating, np.integer)):
        return v.item()
    if isinstance(v, dict):
        return {k: _plain(x) for k, x in v.items()}
    if isinstance(v, (list, tuple)):
        return [_plain(x) for x in v]
    return v


class Interp:
    def __init__(self, init):
        from .. import isolate
        self.res = CaseResult()
        self.dead = False
        self.spec = init["spec"]
        self.rm = RefModel(self.spec)
        isolate.reset()
        self.circ = build_circuit(self.spec, name="main")
        # sibling sharing the very same NodeTemplate / OperatorTemplate objects
        from pyrates import CircuitTemplate
        flat = {}

        def collect(c, pre=""):
            for k, n in c.nodes.items():
                flat[f"{pre}{k}"] = n
            for k, sub in c.circuits.items():
                collect(sub, f"{pre}{k}_")
        collect(self.circ)
        self.sibling = CircuitTemplate(name="sibling", path=None, nodes=dict(flat))
        self.snap0 = (snapshot(self.circ), snapshot(self.sibling))
        self.last_run = {}
        self.n_ops = 0
        self.kinds = []
        self.hier = any("/" in p for p, _ in self.spec["nodes"])
        self.done_ok = set()

    def _outputs(self):
        sp = self.rm.state_paths
        return {f"v{i}": p for i, p in enumerate(sp[:3])}

    def step(self, op):
        if self.dead:
            return
        k = op["op"]
        self.n_ops += 1
        self.kinds.append(k)
        first = k not in self.done_ok
        vec = bool(op.get("vectorize"))
        try:
            # process-global caches are C13's subject: they are reset before every operation so that only state kept
            # on the template objects themselves can carry over from one operation to the next
            from .. import isolate
            isolate.reset(remove_files=False)
            with warnings.catch_warnings():
                warnings.simplefilter("ignore")
                self._do(k, op, vec)
            self.done_ok.add(k)
        except HarnessError:
            raise
        except Exception as e:
            # does the same call work on a fresh template built from the same spec?  If not, the model itself cannot be
            # handled (C01's subject) and the history is not judged.
            fresh_ok = True
            try:
                from .. import isolate
                isolate.reset(remove_files=False)
                saved = (self.circ, self.last_run)
                self.circ, self.last_run = build_circuit(self.spec, name="main"), {}
                try:
                    with warnings.catch_warnings():
                        warnings.simplefilter("ignore")
                        self._do(k, op, vec)
                finally:
                    self.circ, self.last_run = saved
            except Exception:
                fresh_ok = False
            if not fresh_ok:
                self.res.rejected = f"{k} raises on a fresh template as well: {type(e).__name__}"
            else:
                self.res.violate(exc_bucket(f"later-op-raises:{k}", e),
                                 f"{k}({ {a: b for a, b in op.items() if a != 'op'} }) works on a fresh template but raised "
                                 f"after the history {self.kinds[:-1]}: {short_exc(e)}")
            self.dead = True
            return
        self._check_snapshot(k)

    def _do(self, k, op, vec):
        c = self.circ
        sp = self.rm.state_paths
        if k == "run":
            df = c.run(simulation_time=0.05, step_size=0.01, outputs=self._outputs(), solver="euler", vectorize=vec,
                       verbose=False, clear=bool(op.get("clear", True)), in_place=False, float_precision="float64")
            vals = np.asarray(df.values, dtype=float)
            key = ("run", vec)
            if key in self.last_run and (self.last_run[key].shape != vals.shape or
                                         np.max(np.abs(self.last_run[key] - vals)) > 1e-12):
                self.res.violate("repeated-run-differs", f"run(in_place=False, vectorize={vec}) returned different results "
                                                         f"than the same call earlier in the history {self.kinds[:-1]}: "
                                                         f"first rows {self.last_run[key][0].tolist()} vs {vals[0].tolist()}")
                self.dead = True
            self.last_run.setdefault(key, vals)
        elif k == "get_run_func":
            out = c.get_run_func("pv_c14", step_size=0.01, vectorize=vec, in_place=False, clear=bool(op.get("clear", False)),
                                 verbose=False, float_precision="float64", backend="default")
            # the initial state handed out with the function is the declared one, whatever was simulated (in_place=False) before
            y0 = np.sort(np.asarray(out[1][1], dtype=float).ravel())
            want = np.sort(np.array([self.rm.y0()[p] for p in sp], dtype=float))
            if y0.shape != want.shape or np.max(np.abs(y0 - want)) > 1e-12:
                self.res.violate("initial-state-changed", f"get_run_func(in_place=False) after {self.kinds[:-1]} hands out the "
                                                          f"initial state {y0.tolist()}, declared: {want.tolist()}")
                self.dead = True
        elif k == "get_jacobian_func":
            c.get_jacobian_func("pv_c14j", step_size=0.01, vectorize=False, in_place=False, clear=False, verbose=False,
                                float_precision="float64", backend="default")
        elif k == "get_nodes":
            c.get_nodes(["all"])
            p = sp[op.get("i", 0) % len(sp)]
            *node, o, v = p.split("/")
            c.get_nodes(node, var_identifier=(o, v))
        elif k == "get_edges":
            c.get_edges("all", "all")
            if self.rm.edges:
                e = self.rm.edges[op.get("i", 0) % len(self.rm.edges)]
                c.get_edges(e["s"], e["t"])
        elif k == "get_edge":
            top = [e for e in self.spec["edges"] if not e.get("scope")]
            if top:
                e = top[op.get("i", 0) % len(top)]
                c.get_edge(e["s"], e["t"])
        elif k == "collect_edges":
            c.collect_edges(delay_info=bool(op.get("delay_info")))
        elif k == "get_node_template":
            c.get_node_template(self.spec["nodes"][op.get("i", 0) % len(self.spec["nodes"])][0])
        elif k == "getitem":
            if not self.hier:
                c[self.spec["nodes"][op.get("i", 0) % len(self.spec["nodes"])][0]]
            else:
                c["no_such_node"]
        elif k == "to_yaml":
            os.makedirs("c14_yaml", exist_ok=True)
            c.to_yaml(f"c14_yaml/dump{self.n_ops}/main_copy")
        elif k == "deepcopy":
            copy.deepcopy(c)
        elif k == "update_template":
            c.update_template()
            if not self.hier and op.get("i", 0) % 2:
                nm = self.spec["nodes"][0][0]
                c.update_template(nodes={nm + "_extra": c.nodes[nm]})
        elif k == "derive_operator":
            # a derived operator template (what loading a YAML template with `base:` and equation edits does): the edit
            # makes one parameter of the base unused in the derived equations; the base template must stay as it is
            def node_templates(cc):
                out = list(cc.nodes.values())
                for sub in cc.circuits.values():
                    out += node_templates(sub)
                return out
            nts = node_templates(c)
            nt = nts[op.get("i", 0) % len(nts)]
            ots = list(nt.operators)
            ot = ots[(op.get("i", 0) // 3) % len(ots)]
            consts = sorted(v for v, d in ot.variables.items() if isinstance(d, (int, float)))
            edit = {"add": ["zq9 = 1.0"]} if not consts or op.get("i", 0) % 4 == 0 else \
                {"replace": {consts[op.get("i", 0) % len(consts)]: "(1.5)"}}
            kw = {"variables": {"zq9": "variable(0.0)"}} if "add" in edit else {}
            ot.update_template(name=ot.name + "_derived", equations=edit, **kw)
            if "add" in edit and "add" not in edit:
                raise AssertionError("edit dictionary changed")
        elif k == "copy_then_update":
            # a copy-making operation, then IN-PLACE changes of the copy (values of a node variable and of an inherited
            # edge): the template the copy was made from (and its sibling) must stay as they were
            top = [e for e in self.spec["edges"] if not e.get("scope")]
            how = op.get("i", 0) % 3
            if how == 0 and top:
                e0 = top[op.get("i", 0) % len(top)]
                d = c.update_template(edges=[(e0["s"], e0["t"], None, {"weight": 0.123})])
                self.kinds[-1] = "copy_then_update:derive_edges"
            elif how == 1:
                d = c.update_template()
                self.kinds[-1] = "copy_then_update:update_template"
            else:
                d = copy.deepcopy(c)
                self.kinds[-1] = "copy_then_update:deepcopy"
            path = sp[op.get("i", 0) % len(sp)]
            d.update_var(node_vars={path: 0.7771})
            if top:
                e1 = top[(op.get("i", 0) // 3) % len(top)]
                d.update_var(edge_vars=[(e1["s"], e1["t"], {"weight": 9.5})])
        else:
            raise HarnessError(k)

    def _check_snapshot(self, k):
        if self.dead:
            return
        now = (snapshot(self.circ), snapshot(self.sibling))
        if now != self.snap0:
            where = "template" if now[0] != self.snap0[0] else "sibling circuit / shared template objects"
            diff = _first_diff(self.snap0, now)
            self.res.violate(f"template-changed:{k}", f"{k} changed the {where}: {diff} (history {self.kinds})")
            self.dead = True

    def finish(self):
        interesting = {"to_yaml", "run", "get_run_func", "get_jacobian_func"} | ({"get_edges", "collect_edges"} if self.hier else set())
        self.res.nontrivial = self.n_ops >= 2 and bool(interesting & set(self.kinds))
        self.res.labels = sorted({"op:" + k for k in self.kinds}) + (["hierarchical"] if self.hier else ["flat"]) + \
            (["edge_template"] if any(e.get("et") for e in self.spec["edges"]) else [])
        return self.res


def _first_diff(a, b, path=""):
    if type(a) != type(b):
        return f"{path}: {a!r} -> {b!r}"
    if isinstance(a, dict):
        for k in sorted(set(a) | set(b), key=str):
            if k not in a or k not in b:
                return f"{path}/{k}: {'added' if k not in a else 'removed'}"
            d = _first_diff(a[k], b[k], f"{path}/{k}")
            if d:
                return d
        return None
    if isinstance(a, (list, tuple)):
        if len(a) != len(b):
            return f"{path}: length {len(a)} -> {len(b)}"
        for i, (x, y) in enumerate(zip(a, b)):
            d = _first_diff(x, y, f"{path}[{i}]")
            if d:
                return d
        return None
    return None if a == b else f"{path}: {a!r} -> {b!r}"


def op_strategy(it):
    return st.fixed_dictionaries({"op": st.sampled_from(OPS), "vectorize": st.booleans(), "i": st.integers(0, 7),
                                  "clear": st.booleans(), "delay_info": st.booleans()})


def init_strategy():
    base = gen.model_spec({"leak": True, "max_types": 2, "max_ops": 2, "max_nodes": 4, "min_nodes": 2, "max_edges": 4,
                           "min_edges": 1, "expr_depth": 2, "depths": [0, 0, 1, 1, 2], "collision": False, "max_alg": 1,
                           "funcs": ["tanh", "sigmoid", "exp"], "pow": False})
    # one third of the circuits route edges through (shared) EdgeTemplates with per-edge operator values
    return st.one_of(base, base, base.flatmap(lambda s: gen.with_edge_templates(s, same_keys=True))).map(lambda s: {"spec": s})


class HistoryArm(Arm):
    name = "history"
    kind = "stateful"
    budget = {"quick": 400, "thorough": 4000}
    steps = {"quick": 8, "thorough": 10}
    min_per_shard = 10
    case_timeout = 300
    required_labels = ("op:to_yaml", "op:collect_edges", "op:run", "op:get_jacobian_func", "hierarchical", "flat",
                       "op:copy_then_update:derive_edges", "op:copy_then_update:deepcopy", "op:derive_operator")

    def machine(self, ctx, sink, budget_hook):
        self_ = self

        def factory(init):
            return Interp(init)
        return ops_machine(init_strategy(), op_strategy, factory, sink, budget_hook, max_ops=8)

    def run(self, case, ctx):
        from ..arm import guarded_step
        it = Interp(case["init"])
        for op in case["ops"]:
            guarded_step(it, op)
        return it.finish()

    def sample(self, case):
        return {"nodes": case["init"]["spec"]["nodes"], "ops": [{k: v for k, v in op.items()} for op in case["ops"]]}


ARMS = [HistoryArm()]
