"""C11 - distributed delays are unit-gain gamma kernels with the stated mean."""
import copy

import numpy as np
from hypothesis import strategies as st

from .. import gen
from ..arm import Arm
from ..common import CaseResult, HarnessError, exc_bucket, short_exc
from ..findings import excluded_by
from ..model import RefModel, augment_gamma, run_circuit
from .c09 import strip_delays

PROPERTY = {
    "id": "C11",
    "rule": ("Hypothesis-generated circuits (2-5 nodes, leaky dynamics) whose edges carry (delay d, spread s) with "
             "(d/s)^2 in [1, 6.5] (pairs that round to equal and to different orders, edges sharing sources/targets, "
             "plain edges in between) or plain delays with dde_approx=n; run() with euler (exact) and scipy RK45 "
             "(within tolerance), vectorize on/off, must reproduce for every USER variable the trajectory of the "
             "explicitly written augmented ODE system (chain of n=round((d/s)^2) stages of rate n/d per edge, zero "
             "initial state, output of the last stage times the edge weight), integrated by the reference interpreter. "
             "Unit gain and mean delay d are properties of that explicit chain. Non-trivial = >=2 edges with different "
             "(order, rate); distinct = canonical JSON of (spec, config)."),
    "assumptions": [
        "only models whose delay-free version agrees with the reference are judged (others: C01/C04)",
        "Euler iterates compared at 1e-8 relative; scipy compared at 2e-5 relative",
    ],
}


def add_gamma(draw, spec):
    spec = copy.deepcopy(spec)
    n = len(spec["edges"])
    forced = draw(st.integers(0, max(0, n - 1)))
    for i, e in enumerate(spec["edges"]):
        if i != forced and draw(st.sampled_from([1, 1, 0])) == 0:
            continue
        d = draw(st.sampled_from([0.1, 0.2, 0.25, 0.5, 0.3]))
        order = draw(st.sampled_from([1, 2, 3, 4, 2, 3, 6]))
        if draw(st.integers(0, 7)) == 0:
            # a delay of a few integration steps with a narrow kernel: more stages than the delay has steps
            d, order = draw(st.sampled_from([(0.04, 12), (0.05, 12), (0.06, 16), (0.05, 8)]))
        jitter = draw(st.sampled_from([1.0, 1.0, 0.93, 1.08]))
        # s such that (d/s)^2 ~ order*jitter (stays within the same rounding bucket for these jitters)
        s = d / float(np.sqrt(order * jitter))
        e["d"] = round(d, 6)
        e["sp"] = round(s, 6)
        if draw(st.integers(0, 5)) == 0:
            e["sp"] = None  # a plain discrete delay in between (Euler arm only; see run())
    return spec


class GammaArm(Arm):
    name = "gamma"
    budget = {"quick": 1500, "thorough": 12000}
    min_per_shard = 20
    case_timeout = 90
    required_labels = ("vec", "novec", "euler", "scipy", "shared_source", "shared_target", "two_kernels", "high_order",
                       "dde_approx:scipy")

    def strategy(self, ctx):
        @st.composite
        def case(draw):
            from .c08 import ensure_input
            base = draw(gen.model_spec({"leak": True, "max_types": 2, "max_ops": 2, "max_nodes": 5, "min_nodes": 2,
                                        "max_edges": 6, "min_edges": 2, "edge_reuse": False, "expr_depth": 2,
                                        "max_alg": 1, "max_in": 2, "depths": [0, 0, 0, 1], "collision": False,
                                        "funcs": ["sin", "cos", "tanh", "sigmoid", "arctan"], "pow": False}))
            base, _ = ensure_input(base, RefModel(base))
            if not base["edges"]:
                rm_ = RefModel(base)
                tgt = sorted(k for k, kd in rm_.kind.items() if kd == "input")
                base["edges"].append({"s": draw(st.sampled_from(rm_.state_paths)), "t": draw(st.sampled_from(tgt)),
                                      "w": 2.0, "d": None, "sp": None, "et": None, "scope": ""})
            base = gen.uniquify_init(base)
            spec = add_gamma(draw, base)
            solver = draw(st.sampled_from(["euler", "euler", "scipy"]))
            # dde_approx=n: plain delays become chains of n stages, kernels with fewer stages are raised to n stages
            dde = draw(st.sampled_from([0, 0, 0, 3, 5]))
            dt = draw(st.sampled_from([0.01, 0.005]))
            if any(e.get("sp") and (e["d"] / e["sp"]) ** 2 >= 7.5 for e in spec["edges"]):
                dt = 0.005      # (the Euler iteration of a chain is only stable for rate*dt < 2)
            return {"spec": spec, "cfg": {"dt": dt, "steps": draw(st.integers(15, 40)),
                                          "vectorize": draw(st.sampled_from([True, False, True])), "solver": solver,
                                          "dde_approx": dde}}
        from ..finding_predicates import repair_case
        return case().map(lambda c: repair_case(c, ctx))

    def run(self, case, ctx):
        res = CaseResult()
        ex = excluded_by("C11", case, ctx)
        if ex:
            res.excluded = ex
            return res
        spec, cfg = case["spec"], case["cfg"]
        dt, steps, vec, solver = cfg["dt"], cfg["steps"], cfg["vectorize"], cfg["solver"]
        rm_user = RefModel(strip_delays(_strip_spread(spec)))
        sp = rm_user.state_paths
        kernels = []
        by_src, by_tgt = {}, {}
        dde = int(cfg.get("dde_approx") or 0)
        for e in RefModel(spec).edges:
            if e.get("sp") is not None or (dde and e.get("d") is not None):
                n = int(np.round((e["d"] / e["sp"]) ** 2)) if e.get("sp") is not None else 0
                n = max(n, dde)      # dde_approx=n: at least n stages, still of rate (stages)/d: the mean delay stays d
                kernels.append((n, round(n / e["d"], 9)))
                by_src.setdefault(e["s"], []).append(kernels[-1])
                by_tgt.setdefault(e["t"], []).append(kernels[-1])
        lab = ["vec" if vec else "novec", solver]
        if len(set(kernels)) >= 2:
            lab.append("two_kernels")
        if any(n >= 8 for n, _ in kernels):
            lab.append("high_order")
        if any(len(v) >= 2 for v in by_src.values()):
            lab.append("shared_source")
        if any(len(v) >= 2 for v in by_tgt.values()):
            lab.append("shared_target")
        res.labels = sorted(set(lab)) + ["repaired:" + r for r in case.get("_repaired", [])]
        res.nontrivial = len(set(kernels)) >= 2
        if not kernels:
            res.rejected = "no gamma edge drawn"
            return res
        if solver == "euler" and any(rate * dt > 1.6 for _, rate in kernels):
            res.rejected = "Euler iteration of a kernel chain not stable at this step size (rate*dt > 1.6)"
            return res
        if dde:
            res.labels.append(f"dde_approx:{solver}")
        if not dde and any(e.get("d") is not None and e.get("sp") is None for e in spec["edges"]):
            res.labels.append("discrete_delay_in_between")
            if solver != "euler":
                res.rejected = "discrete delays under an adaptive solver are C10's subject"
                return res
        outputs = {f"v{i}": p for i, p in enumerate(sp)}
        T = steps * dt
        # delay-free baseline (Euler)
        s0 = strip_delays(_strip_spread(spec))
        ref0 = rm_user.simulate(steps, dt)[:steps]
        if not np.all(np.isfinite(ref0)) or np.max(np.abs(ref0)) > 1e6:
            res.rejected = "reference not benign"
            return res
        try:
            df0 = run_circuit(s0, T, dt, dict(outputs), vectorize=vec)
            a0 = np.column_stack([np.asarray(df0[f"v{i}"], dtype=float) for i in range(len(sp))])
        except HarnessError:
            raise
        except Exception as e:
            res.rejected = f"baseline-raises:{type(e).__name__}"
            return res
        if a0.shape != ref0.shape or np.max(np.abs(a0 - ref0)) > 1e-8 * (1 + np.max(np.abs(ref0))):
            res.rejected = "delay-free baseline deviates from reference (C01/C04)"
            return res
        # reference: explicit augmented system
        aug = augment_gamma(spec, dde_approx=dde)
        rma = RefModel(aug)
        cols = [rma.state_paths.index(p) for p in sp]
        if solver == "euler":
            ref = rma.simulate(steps, dt)[:steps][:, cols]
            kw = {}
            tol = 1e-8
        else:
            from scipy.integrate import solve_ivp
            spa = rma.state_paths
            y0 = np.array([rma.y0()[p] for p in spa])

            def f(t, y):
                d = rma.vf(dict(zip(spa, y)), t=t)
                return np.array([d[p][0] for p in spa])
            times = np.arange(steps) * dt
            with np.errstate(all="ignore"):
                sol = solve_ivp(f, (0.0, T), y0, method="DOP853", rtol=1e-10, atol=1e-12, t_eval=times)
            if not sol.success or sol.y.size == 0:
                res.rejected = "reference integration failed"
                return res
            ref = sol.y.T[:, cols]
            kw = dict(method="RK45", rtol=1e-8, atol=1e-10)
            tol = 2e-5
        if not np.all(np.isfinite(ref)) or np.max(np.abs(ref)) > 1e6:
            res.rejected = "reference not benign"
            return res
        try:
            if dde:
                kw = dict(kw, dde_approx=dde)
            df = run_circuit(spec, T, dt, dict(outputs), vectorize=vec, solver=solver, **kw)
            a = np.column_stack([np.asarray(df[f"v{i}"], dtype=float) for i in range(len(sp))])
        except HarnessError:
            raise
        except Exception as e:
            res.violate(exc_bucket(f"run-raises:{'vec' if vec else 'novec'}:{solver}", e),
                        f"kernels (order, rate) {kernels}: {short_exc(e)}")
            return res
        if a.shape != ref.shape:
            res.violate("shape", f"run returned {a.shape}, expected {ref.shape}")
            return res
        err = float(np.max(np.abs(a - ref) / (1.0 + np.abs(ref))))
        if err > tol:
            j = int(np.argmax(np.max(np.abs(a - ref), axis=0)))
            res.violate(f"wrong-trajectory:{'vec' if vec else 'novec'}:{solver}",
                        f"{sp[j]} deviates from the explicit gamma-chain system (max rel. dev {err:.3g}); edges "
                        f"(src, tgt, d, s, order): "
                        f"{[(e['s'], e['t'], e.get('d'), e.get('sp'), None if e.get('sp') is None else int(np.round((e['d'] / e['sp']) ** 2))) for e in RefModel(spec).edges]}")
        return res

    def sample(self, case):
        spec = case["spec"]
        return {"nodes": spec["nodes"], "edges": [[e["s"], e["t"], e["w"], e["d"], e["sp"]] for e in spec["edges"]],
                "cfg": case["cfg"]}


class StructuredArm(GammaArm):
    """3-6 structurally identical nodes, one (source variable, target variable) pair, 3-8 gamma-kernel edges whose sources
    are drawn with repetitions and listed in drawn order (so that the kernel groups of the merged source variable read
    its units in non-ascending, repeated or gapped order), one or two (delay, spread) pairs"""
    name = "structured"
    budget = {"quick": 300, "thorough": 3000}
    min_per_shard = 10
    required_labels = ("vec", "euler", "shared_source", "high_order")

    def strategy(self, ctx):
        @st.composite
        def case(draw):
            base = draw(gen.model_spec({"leak": True, "max_types": 1, "max_ops": 2, "max_nodes": 1, "min_nodes": 1, "max_edges": 0,
                                        "depths": [0], "expr_depth": 2, "max_state": 2, "max_alg": 1, "max_in": 2,
                                        "overrides": False, "collision": False, "funcs": ["sin", "tanh", "sigmoid"], "pow": False}))
            from .c08 import ensure_input
            base, _ = ensure_input(base, RefModel(base))
            n = draw(st.integers(3, 6))
            nt = base["nodes"][0][1]
            base["nodes"] = [[f"p{i}", nt] for i in range(n)]
            spec = gen.uniquify_init(base)
            rm = RefModel(spec)
            tg = sorted(k[len("p0/"):] for k, kd in rm.kind.items() if kd == "input" and k.startswith("p0/"))
            sr = sorted(k[len("p0/"):] for k in rm.state_paths if k.startswith("p0/"))
            tv, sv = draw(st.sampled_from(tg)), draw(st.sampled_from(sr))
            m = draw(st.integers(3, 8))
            pairs_ = [(0.1, 1), (0.2, 2), (0.1, 3), (0.05, 12)]
            k0 = draw(st.integers(0, 3))
            two = draw(st.booleans())
            edges = []
            for i in range(m):
                d, order = pairs_[(k0 + (draw(st.integers(0, 1)) if two else 0)) % 4]
                edges.append({"s": f"p{draw(st.integers(0, n - 1))}/{sv}", "t": f"p{draw(st.integers(0, n - 1))}/{tv}",
                              "w": round(0.3 + 0.19 * i * (-1) ** i, 3), "d": d, "sp": round(d / float(np.sqrt(order)), 6),
                              "et": None, "scope": ""})
            spec["edges"] = edges
            dt = 0.005 if any((e["d"] / e["sp"]) ** 2 >= 7.5 for e in edges) else 0.01
            return {"spec": spec, "cfg": {"dt": dt, "steps": draw(st.integers(15, 30)),
                                          "vectorize": draw(st.sampled_from([True, True, False])), "solver": "euler"}}
        from ..finding_predicates import repair_case
        return case().map(lambda c: repair_case(c, ctx))


def _strip_spread(spec):
    s = copy.deepcopy(spec)
    for e in s["edges"]:
        e["sp"] = None
    return s


ARMS = [GammaArm(), StructuredArm()]
