"""C16 - a Population/Connectivity circuit equals the explicit node-and-edge network."""
import copy
import warnings

import numpy as np
from hypothesis import strategies as st

from .. import gen
from ..arm import Arm
from ..common import CaseResult, HarnessError, exc_bucket, short_exc
from ..findings import excluded_by
from ..model import RefModel, augment_gamma, build_operator

PROPERTY = {
    "id": "C16",
    "rule": ("Hypothesis-generated population circuits: 1-3 PopulationTemplate(n=1..6) over generated leaky operators "
             "with scalar and per-unit parameter/initial values, 1-4 Connectivity objects with non-square, signed, "
             "sparse weight matrices or scalar weights, optional algebraic coupling EdgeTemplate evaluated per "
             "(target, source) pair, optional delays with/without spread; run(euler) of the population circuit is "
             "compared unit by unit (columns (key, unit) in unit order) with the reference interpreter applied to the "
             "explicit network (one node per unit, one scalar edge per non-zero matrix entry, scalar weight w -> "
             "w*sum_j source_j for every target). Non-trivial = some weight matrix is non-symmetric with >=2 distinct "
             "non-zero entries and n>=2; distinct = canonical JSON of the case."),
    "assumptions": [
        "the explicit network is interpreted by the reference model (primary oracle); the explicitly built PyRates "
        "circuit (add_edges_from_matrix) is judged against the same reference in the matrix_edges arm",
        "coupling edge operators are algebraic and declare no constants (constants in a coupling operator are a listed "
        "finding)",
    ],
}
PROPERTY["rule"] += ' Arm matrix_edges: the explicit network built with CircuitTemplate.add_edges_from_matrix (entry [j, i] = weight of source i -> target j, non-square and asymmetric patterns, optional delay attribute, vectorize on/off) is run and compared with the same reference.'


def expand(ps, zero_rows=True):
    """population spec -> ordinary spec of the explicit network (nodes '<pop>_u<i>')"""
    spec = {"ops": copy.deepcopy(ps["ops"]), "ntypes": {}, "nodes": [], "edges": [], "etypes": {}}
    sizes = {}
    for name, nt, n, params in ps["pops"]:
        sizes[name] = n
        for i in range(n):
            ov = {}
            for key, val in params.items():
                o, v = key.split("/")
                ov.setdefault(o, {})[v] = val[i] if isinstance(val, list) else val
            ntn = f"{name}_t{i}"
            spec["ntypes"][ntn] = {"ops": list(ps["ntypes"][nt]["ops"]), "ov": ov}
            spec["nodes"].append([f"{name}_u{i}", ntn])
    k = 0
    for c in ps["conns"]:
        sp_, so, sv = c["s"].split("/")
        tp_, to, tv = c["t"].split("/")
        ns, nt_ = sizes[sp_], sizes[tp_]
        W = c["W"]
        for i in range(nt_):
            for j in range(ns):
                w = W if not isinstance(W, list) else W[i][j]
                if isinstance(W, list) and w == 0 and (any(W[i]) or j > 0 or not zero_rows):
                    # zero entries carry no edge - except that a target whose row is entirely zero still "receives
                    # sum_j W[i,j]*source_j" = 0 (not its declared default): keep one zero-weight edge for such a row
                    continue
                src = f"{sp_}_u{j}/{so}/{sv}"
                tgt = f"{tp_}_u{i}/{to}/{tv}"
                if c.get("coupling"):
                    cp = c["coupling"]
                    on, ntn, nn = f"cpl_op{k}", f"cpl_nt{k}", f"cpl{k}"
                    if cp.get("dynamic"):
                        # dynamic coupling: every (target, source) pair has a state variable of its own
                        dy = cp["dynamic"]
                        rhs = ["bin", "/", ["bin", "-", ["bin", "*", ["var", "g_c"], cp["expr"]], ["var", "cval"]], ["var", "tau_c"]]
                        spec["ops"][on] = {"vars": [["pre", "input", 0.0], ["post", "input", 0.0], ["cval", "state", 0.0],
                                                    ["g_c", "const", dy["g_c"]], ["tau_c", "const", dy["tau_c"]]],
                                           "eqs": [["cval", True, rhs, 0]], "out": "cval"}
                    else:
                        spec["ops"][on] = {"vars": [["pre", "input", 0.0], ["post", "input", 0.0], ["cval", "alg", 0.0]],
                                           "eqs": [["cval", False, cp["expr"], 0]], "out": "cval"}
                    spec["ntypes"][ntn] = {"ops": [on], "ov": {}}
                    spec["nodes"].append([nn, ntn])
                    po, pv = cp["post_var"].split("/")
                    spec["edges"].append({"s": src, "t": f"{nn}/{on}/pre", "w": 1.0, "d": c.get("d"), "sp": c.get("sp"),
                                          "et": None, "scope": ""})
                    spec["edges"].append({"s": f"{tp_}_u{i}/{po}/{pv}", "t": f"{nn}/{on}/post", "w": 1.0, "d": None,
                                          "sp": None, "et": None, "scope": ""})
                    spec["edges"].append({"s": f"{nn}/{on}/cval", "t": tgt, "w": float(w), "d": None, "sp": None,
                                          "et": None, "scope": ""})
                    k += 1
                else:
                    spec["edges"].append({"s": src, "t": tgt, "w": float(w), "d": c.get("d"), "sp": c.get("sp"),
                                          "et": None, "scope": ""})
    return spec


def build_population_circuit(ps):
    from pyrates import CircuitTemplate, Connectivity, EdgeTemplate, NodeTemplate, OperatorTemplate, PopulationTemplate
    from .. import expr as E
    ops = {o: build_operator(o, od) for o, od in ps["ops"].items()}
    pops = {}
    for name, nt, n, params in ps["pops"]:
        node = NodeTemplate(name=nt, path=None, operators=[ops[o] for o in ps["ntypes"][nt]["ops"]])
        pr = {k: (np.asarray(v, dtype=float) if isinstance(v, list) else float(v)) for k, v in params.items()}
        pops[name] = PopulationTemplate(name=name, node=node, n=n, params=pr)
    conns = []
    for k, c in enumerate(ps["conns"]):
        kw = {}
        if c.get("coupling"):
            cp = c["coupling"]
            if cp.get("dynamic"):
                dy = cp["dynamic"]
                eop = OperatorTemplate(name=f"cpl_op{k}", path=None,
                                       equations=[f"cval' = (g_c*({E.render(cp['expr'])}) - cval)/tau_c"],
                                       variables={"cval": "output(0.0)", "pre": "input(0.0)", "post": "input(0.0)",
                                                  "g_c": float(dy["g_c"]), "tau_c": float(dy["tau_c"])})
            else:
                eop = OperatorTemplate(name=f"cpl_op{k}", path=None, equations=[f"cval = {E.render(cp['expr'])}"],
                                       variables={"cval": "output(0.0)", "pre": "input(0.0)", "post": "input(0.0)"})
            kw["edge"] = EdgeTemplate(name=f"cpl_edge{k}", path=None, operators=[eop])
            tp_ = c["t"].split("/")[0]
            kw["edge_var_map"] = {"pre": "source", "post": f"{tp_}/{cp['post_var']}"}
        W = c["W"]
        conns.append(Connectivity(source=c["s"], target=c["t"],
                                  weights=np.asarray(W, dtype=float) if isinstance(W, list) else float(W),
                                  delays=c.get("d"), spread=(0.0 if c.get("sp0") and c.get("sp") is None else c.get("sp")),
                                  **kw))
    return CircuitTemplate(name="popnet", populations=pops, connections=conns)


@st.composite
def pop_case(draw):
    n_types = draw(st.integers(1, 2))
    ops, ntypes = {}, {}
    for ti in range(n_types):
        od = draw(gen.operator_def({"max_state": 2, "max_alg": draw(st.sampled_from([0, 0, 1])), "max_in": 2,
                                    "max_const": 2, "expr_depth": 2, "pow": False}, (), idx=ti, leak=True,
                                   funcs=["sin", "cos", "tanh", "sigmoid", "arctan"], collision=False))
        od.pop("_alg_dep_in", None)
        if not any(v[1] == "input" for v in od["vars"]):
            names = {v[0] for v in od["vars"]}
            nm = next(n for n in ("xin", "xin0", "xin1") if n not in names)
            od["vars"].append([nm, "input", 0.1])
            de = [e for e in od["eqs"] if e[1]][0]
            de[2] = ["bin", "+", de[2], ["var", nm]]
        ops[f"op{ti}"] = od
        ntypes[f"nt{ti}"] = {"ops": [f"op{ti}"], "ov": {}}
    n_pops = draw(st.integers(1, 3))
    pops = []
    fp = 0
    for pi in range(n_pops):
        nt = draw(st.sampled_from(sorted(ntypes)))
        n = draw(st.sampled_from([1, 2, 2, 3, 3, 4, 5, 6, 2, 3, 4, 5, 6, 2, 3, 4]))
        o = ntypes[nt]["ops"][0]
        params = {}
        for v in ops[o]["vars"]:
            if v[1] == "state":
                # unique initial values per unit: unit order becomes observable
                params[f"{o}/{v[0]}"] = [round(-0.9 + 0.0437 * (fp + i), 4) for i in range(n)]
                fp += n
            elif v[1] == "const":
                mode = draw(st.integers(0, 2))
                if mode == 1:
                    params[f"{o}/{v[0]}"] = round(0.5 + 0.1 * draw(st.integers(0, 9)), 3)
                elif mode == 2:
                    params[f"{o}/{v[0]}"] = [round(0.5 + 0.07 * ((fp + 3 * i) % 17), 3) for i in range(n)]
        pops.append([f"pop{pi}", nt, n, params])
    sizes = {p[0]: p[2] for p in pops}
    n_conn = draw(st.integers(1, 4))
    conns = []
    wv = st.sampled_from([0.0, 0.0, 1.0, 2.0, -1.5, 0.5, 3.0, -0.75, 0.3, 1.25])
    used_targets = set()
    for _ in range(n_conn):
        sp_ = draw(st.sampled_from(pops))
        tp_ = draw(st.sampled_from(pops))
        so = ntypes[sp_[1]]["ops"][0]
        to = ntypes[tp_[1]]["ops"][0]
        svars = [v[0] for v in ops[so]["vars"] if v[1] == "state"]
        tvars = [v[0] for v in ops[to]["vars"] if v[1] == "input"]
        t = f"{tp_[0]}/{to}/{draw(st.sampled_from(tvars))}"
        s = f"{sp_[0]}/{so}/{draw(st.sampled_from(svars))}"
        kind = draw(st.sampled_from(["matrix", "matrix", "matrix", "scalar"]))
        if kind == "scalar":
            W = draw(st.sampled_from([1.0, 2.0, -1.5, 0.5]))
        else:
            if draw(st.integers(0, 5)) == 0:
                u = draw(st.sampled_from([0.5, 1.25, -0.75]))      # uniform (all-to-all K/N) coupling matrix
                W = [[u for _ in range(sp_[2])] for _ in range(tp_[2])]
            else:
                W = [[draw(wv) for _ in range(sp_[2])] for _ in range(tp_[2])]
            if not any(any(r) for r in W):
                W[0][0] = 1.25
        if (sp_[0], t) in used_targets and draw(st.integers(0, 4)) > 0:
            continue  # (a second connection from the same population into the same variable: rarely)
        used_targets.add((sp_[0], t))
        c = {"s": s, "t": t, "W": W, "d": None, "sp": None, "coupling": None}
        dm = draw(st.integers(0, 5))
        if dm == 0:
            c["d"] = draw(st.sampled_from([0.03, 0.05, 0.023, 0.017, 0.017]))
            # "no spread" may also be spelled spread=0 (the first point of a sweep over the spread)
            c["sp0"] = draw(st.sampled_from([False, False, True]))
        elif dm == 1:
            if draw(st.booleans()):
                c["d"] = draw(st.sampled_from([0.1, 0.2]))
                c["sp"] = round(c["d"] / float(np.sqrt(draw(st.sampled_from([1, 2, 3])))), 6)
            else:
                # delays that differ but round to the same number of steps, spreads from a short list (so that two
                # connections of one source variable may share the spread): every connection has a kernel of its own
                c["d"] = draw(st.sampled_from([0.104, 0.096, 0.1, 0.204, 0.196]))
                c["sp"] = draw(st.sampled_from([0.05, 0.07]))
        if kind == "matrix" and draw(st.integers(0, 3)) == 0 and (sp_[0] == tp_[0] or draw(st.integers(0, 5)) == 0):
            tstates = [v[0] for v in ops[to]["vars"] if v[1] == "state"]
            pv = draw(st.sampled_from(tstates))
            expr = draw(st.sampled_from([
                ["call", "sin", ["bin", "-", ["var", "pre"], ["var", "post"]]],
                ["bin", "*", ["var", "pre"], ["call", "tanh", ["var", "post"]]],
                ["bin", "-", ["var", "pre"], ["bin", "*", ["num", 0.5], ["var", "post"]]]]))
            c["coupling"] = {"expr": expr, "post_var": f"{to}/{pv}"}
            if draw(st.integers(0, 2)) == 0:
                c["coupling"]["dynamic"] = {"g_c": draw(st.sampled_from([1.0, 1.5, 0.7])),
                                            "tau_c": draw(st.sampled_from([0.5, 1.0, 2.0]))}
        conns.append(c)
        if c.get("sp") in (0.05, 0.07) and not c.get("coupling") and draw(st.booleans()):
            # a second connection that leaves the same source variable with the same spread and a delay that rounds to the
            # same number of steps
            tp2 = draw(st.sampled_from(pops))
            to2 = ntypes[tp2[1]]["ops"][0]
            tv2 = draw(st.sampled_from([v[0] for v in ops[to2]["vars"] if v[1] == "input"]))
            d2 = {0.104: 0.096, 0.096: 0.104, 0.1: 0.104, 0.204: 0.196, 0.196: 0.204}[c["d"]]
            W2 = [[draw(wv) for _ in range(sp_[2])] for _ in range(tp2[2])]
            if not any(any(r) for r in W2):
                W2[0][0] = 0.75
            conns.append({"s": c["s"], "t": f"{tp2[0]}/{to2}/{tv2}", "W": W2, "d": d2, "sp": c["sp"], "coupling": None})
    if not conns:
        conns.append(c)
    return {"pspec": {"ops": ops, "ntypes": ntypes, "pops": pops, "conns": conns},
            "cfg": {"dt": 0.01, "steps": draw(st.integers(10, 25)),
                    # delays approximated by chains of ODEs (orders at least dde_approx, plain delays become chains)
                    "dde_approx": draw(st.sampled_from([0, 0, 0, 0, 3])) if any(c.get("d") is not None for c in conns) else 0,
                    # an extrinsic 1-D input into an input variable of the first population (all its units)
                    "pop_input": draw(st.sampled_from([False] * 5 + [True])),
                    # the judged run is the first translation of the template objects, or follows an earlier one
                    "warmup": draw(st.sampled_from([None, None, None, "run", "run_other_dt", "get_run_func", "run_in_place",
                                                    "run_in_place"]))}}


class PopArm(Arm):
    name = "population"
    budget = {"quick": 1500, "thorough": 15000}
    min_per_shard = 20
    required_labels = ("matrix", "scalar_weight", "non_square", "heterogeneous_params", "coupling_edge", "delay",
                       "delay+spread", "two_populations", "second_translation:run", "second_translation:get_run_func",
                       "second_translation:run_in_place", "dynamic_coupling_edge", "delay_spread_zero", "dde_approx")

    def strategy(self, ctx):
        return pop_case()

    def run(self, case, ctx):
        from .. import isolate
        res = CaseResult()
        # listed findings are phrased over populations (F-16*) or over ordinary specs: the latter see the explicit
        # network with all units of a population merged (populations are always vectorised)
        ex = excluded_by("C16", dict(case, spec=expand(case["pspec"]), cfg=dict(case["cfg"], vectorize=True)), ctx)
        if ex:
            res.excluded = ex
            return res
        ps, cfg = case["pspec"], case["cfg"]
        dt, steps = cfg["dt"], cfg["steps"]
        lab = set()
        nontriv = False
        for c in ps["conns"]:
            W = c["W"]
            if isinstance(W, list):
                lab.add("matrix")
                A = np.asarray(W, dtype=float)
                if A.shape[0] != A.shape[1]:
                    lab.add("non_square")
                nz = A[A != 0]
                if A.shape[0] >= 2 and A.shape[1] >= 2 and len(set(nz.tolist())) >= 2 and \
                        (A.shape[0] != A.shape[1] or not np.allclose(A, A.T)):
                    nontriv = True
            else:
                lab.add("scalar_weight")
            if c.get("coupling"):
                lab.add("coupling_edge")
                if c["coupling"].get("dynamic"):
                    lab.add("dynamic_coupling_edge")
            if isinstance(c["W"], list) and len({x for r in c["W"] for x in r}) == 1 and sum(len(r) for r in c["W"]) > 1:
                lab.add("uniform_matrix")
            if c.get("d") is not None:
                lab.add("delay+spread" if c.get("sp") is not None else "delay")
                if c.get("sp0") and c.get("sp") is None:
                    lab.add("delay_spread_zero")
        if len(ps["pops"]) >= 2:
            lab.add("two_populations")
        if any(isinstance(v, list) and not k.split("/")[1] in {s[0] for od in ps["ops"].values() for s in od["vars"] if s[1] == "state"}
               for p in ps["pops"] for k, v in p[3].items()):
            lab.add("heterogeneous_params")
        res.labels = sorted(lab)
        res.nontrivial = nontriv
        # reference on the explicit network
        ex_spec = expand(ps)
        dde = int(cfg.get("dde_approx") or 0)
        if any(e.get("sp") is not None for e in ex_spec["edges"]) or (dde and any(e.get("d") is not None for e in ex_spec["edges"])):
            rm = RefModel(augment_gamma(ex_spec, dde_approx=dde))
            lab.add("dde_approx" if dde else "gamma")
            res.labels = sorted(lab)
        else:
            rm = RefModel(ex_spec)
        ref_inputs, run_inputs = None, None
        if cfg.get("pop_input") and not cfg.get("warmup"):
            name0, nt0, n0, _ = ps["pops"][0]
            o0 = ps["ntypes"][nt0]["ops"][0]
            iv = next((v[0] for v in ps["ops"][o0]["vars"] if v[1] == "input"), None)
            if iv is not None:
                arr = np.round(0.3 * np.sin(0.7 * np.arange(steps)) + 0.1, 6)
                ref_inputs = {f"{name0}_u{i}/{o0}/{iv}": arr for i in range(n0)}
                run_inputs = {f"{name0}/{o0}/{iv}": arr}
                lab.add("population_input")
                res.labels = sorted(lab)
        ref_all = rm.simulate(steps, dt, inputs=ref_inputs)[:steps]
        if not np.all(np.isfinite(ref_all)) or np.max(np.abs(ref_all)) > 1e6:
            res.rejected = "reference not benign"
            return res
        col = {p: i for i, p in enumerate(rm.state_paths)}
        outputs, expect = {}, {}
        k = 0
        for name, nt, n, params in ps["pops"]:
            o = ps["ntypes"][nt]["ops"][0]
            for v in ps["ops"][o]["vars"]:
                if v[1] == "state":
                    key = f"k{k}"
                    k += 1
                    outputs[key] = f"{name}/{o}/{v[0]}"
                    expect[key] = [ref_all[:, col[f"{name}_u{i}/{o}/{v[0]}"]] for i in range(n)]
        isolate.reset()
        try:
            circ = build_population_circuit(ps)
            wu = cfg.get("warmup")
            if wu:
                # an earlier translation of the same PopulationTemplate / Connectivity objects (on a copy, in_place=False,
                # or on the objects themselves)
                res.labels = sorted(set(res.labels) | {"second_translation:" + wu})
                with warnings.catch_warnings():
                    warnings.simplefilter("ignore")
                    if wu == "get_run_func":
                        circ.get_run_func("pv_warm", step_size=dt, solver="euler", verbose=False, clear=True, in_place=False,
                                          float_precision="float64", file_name="pv_gen_warm")
                    else:
                        dtw = dt / 2 if wu == "run_other_dt" else dt
                        circ.run(simulation_time=4 * dt, step_size=dtw, outputs=dict(outputs), solver="euler",
                                 verbose=False, clear=True, in_place=(wu == "run_in_place"), float_precision="float64")
            with warnings.catch_warnings():
                warnings.simplefilter("ignore")
                df = circ.run(simulation_time=steps * dt, step_size=dt, outputs=dict(outputs), solver="euler",
                              verbose=False, clear=True, in_place=False, float_precision="float64",
                              **({"inputs": dict(run_inputs)} if run_inputs else {}),
                              **({"dde_approx": dde} if dde else {}))
        except HarnessError:
            raise
        except Exception as e:
            if run_inputs:
                # extrinsic inputs into population variables are refused by the implementation (an exception): what
                # is judged is that a run which does return has used the population network and the input
                res.rejected = f"input into a population variable is refused: {type(e).__name__}"
                return res
            res.violate(exc_bucket("population-run-raises", e),
                        f"pops {[(p[0], p[2]) for p in ps['pops']]} conns {[(c['s'], c['t'], 'scalar' if not isinstance(c['W'], list) else np.shape(c['W']), c.get('d'), c.get('sp'), bool(c.get('coupling'))) for c in ps['conns']]}: {short_exc(e)}")
            return res
        scale = 1.0 + float(np.max(np.abs(ref_all)))
        for key, trajs in expect.items():
            n = len(trajs)
            for i in range(n):
                try:
                    colv = np.asarray(df[(key, i)] if n > 1 else (df[key] if key in df.columns else df[(key, 0)]), dtype=float)
                except Exception as e:
                    res.violate("population-columns", f"no column ({key!r}, {i}) for {outputs[key]} (n={n}); columns: "
                                                      f"{list(df.columns)[:8]}")
                    return res
                colv = colv.reshape(len(colv), -1)[:, 0] if colv.ndim > 1 else colv
                if colv.shape != trajs[i].shape or np.max(np.abs(colv - trajs[i])) > 1e-8 * scale:
                    others = [j for j in range(n) if colv.shape == trajs[j].shape and np.max(np.abs(colv - trajs[j])) <= 1e-8 * scale]
                    res.violate("unit-trajectory", f"{outputs[key]} unit {i}: deviates from the explicit network "
                                                   f"(equals unit(s) {others}); conns "
                                                   f"{[(c['s'], c['t'], c['W'] if not isinstance(c['W'], list) else np.shape(c['W']), c.get('d'), c.get('sp'), bool(c.get('coupling'))) for c in ps['conns']]}")
                    return res
        res.info["unit_columns_checked"] = res.info.get("unit_columns_checked", 0) + sum(len(v) for v in expect.values())
        return res

    def sample(self, case):
        from ..model import render_eq
        ps = case["pspec"]
        return {"ops": {o: [render_eq(*e) for e in od["eqs"]] for o, od in ps["ops"].items()},
                "pops": [[p[0], p[1], p[2], sorted(p[3])] for p in ps["pops"]],
                "conns": [{k: v for k, v in c.items()} for c in ps["conns"]], "cfg": case["cfg"]}


class MatrixEdgesArm(Arm):
    """the explicit network itself, built the way the property names it: one node per unit and
    CircuitTemplate.add_edges_from_matrix(source_var, target_var, source_nodes, target_nodes, weight[, edge_attr]) per
    connection (entry [j, i] of the matrix is the weight of the edge source_nodes[i] -> target_nodes[j]; entries with
    |w| <= min_weight carry no edge), compared unit by unit with the reference interpreter"""
    name = "matrix_edges"
    budget = {"quick": 400, "thorough": 5000}
    min_per_shard = 10
    required_labels = ("non_square", "asymmetric_pattern", "vec", "novec", "delay")

    def strategy(self, ctx):
        @st.composite
        def case(draw):
            c = draw(pop_case())
            for cn in c["pspec"]["conns"]:
                cn["coupling"] = None
                if cn.get("sp") is not None or draw(st.integers(0, 2)) > 0:
                    cn["d"], cn["sp"] = None, None
            c["cfg"]["vectorize"] = draw(st.booleans())
            c["cfg"]["warmup"] = None
            return c
        from ..finding_predicates import repair_case

        def rep(c):
            # the listed findings are phrased over ordinary specs: repair the explicit network's view of the case
            return c
        return case()

    def run(self, case, ctx):
        from .. import isolate
        from ..model import build_circuit
        res = CaseResult()
        ps, cfg = case["pspec"], case["cfg"]
        vec = bool(cfg.get("vectorize"))
        ex_spec = expand(ps, zero_rows=False)
        ex = excluded_by("C16", {"spec": ex_spec, "cfg": dict(cfg, vectorize=vec)}, ctx)
        if ex:
            res.excluded = ex
            return res
        dt, steps = cfg["dt"], cfg["steps"]
        lab = {"vec" if vec else "novec"}
        nontriv = False
        for c in ps["conns"]:
            if isinstance(c["W"], list):
                A = np.asarray(c["W"], dtype=float)
                if A.shape[0] != A.shape[1]:
                    lab.add("non_square")
                elif A.shape[0] >= 2 and not np.array_equal(A != 0, (A != 0).T):
                    lab.add("asymmetric_pattern")
                if A.size >= 4 and len(set(A[A != 0].tolist())) >= 2:
                    nontriv = True
            if c.get("d") is not None:
                lab.add("delay")
        res.labels = sorted(lab)
        res.nontrivial = nontriv
        rm = RefModel(ex_spec)
        ref_all = rm.simulate(steps, dt)[:steps]
        if not np.all(np.isfinite(ref_all)) or np.max(np.abs(ref_all)) > 1e6:
            res.rejected = "reference not benign"
            return res
        sizes = {p[0]: p[2] for p in ps["pops"]}
        isolate.reset()
        try:
            circ = build_circuit(dict(ex_spec, edges=[]), name="net")
            for c in ps["conns"]:
                sp_, so, sv = c["s"].split("/")
                tp_, to, tv = c["t"].split("/")
                W = np.asarray(c["W"], dtype=float) if isinstance(c["W"], list) else \
                    np.full((sizes[tp_], sizes[sp_]), float(c["W"]))
                kw = {"edge_attr": {"delay": float(c["d"])}} if c.get("d") is not None else {}
                circ.add_edges_from_matrix(source_var=f"{so}/{sv}", target_var=f"{to}/{tv}",
                                           source_nodes=[f"{sp_}_u{j}" for j in range(sizes[sp_])],
                                           target_nodes=[f"{tp_}_u{i}" for i in range(sizes[tp_])], weight=W, **kw)
            outputs = {f"v{i}": p for i, p in enumerate(rm.state_paths)}
            with warnings.catch_warnings():
                warnings.simplefilter("ignore")
                df = circ.run(simulation_time=steps * dt, step_size=dt, outputs=dict(outputs), solver="euler", verbose=False,
                              clear=True, in_place=False, float_precision="float64", vectorize=vec)
        except HarnessError:
            raise
        except Exception as e:
            res.violate(exc_bucket("matrix-edges-run-raises", e),
                        f"pops {[(p[0], p[2]) for p in ps['pops']]} conns {[(c['s'], c['t'], np.shape(c['W']), c.get('d')) for c in ps['conns']]}: {short_exc(e)}")
            return res
        scale = 1.0 + float(np.max(np.abs(ref_all)))
        for i, p in enumerate(rm.state_paths):
            colv = np.asarray(df[f"v{i}"], dtype=float).ravel()
            if colv.shape != ref_all[:, i].shape or np.max(np.abs(colv - ref_all[:, i])) > 1e-8 * scale:
                res.violate("matrix-edges-trajectory", f"{p}: the network built by add_edges_from_matrix deviates from the "
                                                       f"explicit network (vectorize={vec}); conns "
                                                       f"{[(c['s'], c['t'], c['W'], c.get('d')) for c in ps['conns']]}")
                return res
        return res

    def sample(self, case):
        ps = case["pspec"]
        return {"pops": [[p[0], p[1], p[2]] for p in ps["pops"]], "conns": [{k: v for k, v in c.items()} for c in ps["conns"]],
                "cfg": case["cfg"]}


class AdaptiveFormsArm(Arm):
    """the two forms under an adaptive solver: the population circuit and the explicit network of the same model (one node
    per unit, one scalar edge per non-zero entry, built as ordinary PyRates templates) are both run with scipy RK45 at
    rtol 1e-9 and must agree (2e-6 relative to the trajectory scale); delays without spread mean hist(t - d) on scalar
    edges (C10)"""
    name = "adaptive_forms"
    budget = {"quick": 160, "thorough": 2000}
    min_per_shard = 6
    required_labels = ("matrix", "two_populations")

    def strategy(self, ctx):
        @st.composite
        def case(draw):
            c = draw(pop_case())
            for cn in c["pspec"]["conns"]:
                cn["coupling"] = None
                cn["sp"] = None
                if cn.get("d") is not None:
                    cn["d"] = draw(st.sampled_from([0.05, 0.1, 0.2]))
                    if "F-16k" in getattr(ctx, "active_findings", ()):
                        # (while the finding is listed its shape is not generated: the undelayed forms are compared)
                        cn["d"] = None
            c["cfg"] = {"dt": 0.01, "steps": draw(st.integers(20, 40)), "solver": "scipy", "vectorize": False}
            return c
        return case()

    def run(self, case, ctx):
        from .. import isolate
        from ..model import build_circuit
        res = CaseResult()
        ps, cfg = case["pspec"], case["cfg"]
        ex_spec = expand(ps)
        ex = excluded_by("C16", dict(case, spec=ex_spec, cfg=dict(cfg)), ctx)
        if ex:
            res.excluded = ex
            return res
        lab = set()
        for c in ps["conns"]:
            lab.add("matrix" if isinstance(c["W"], list) else "scalar_weight")
            if c.get("d") is not None:
                lab.add("delay")
        if len(ps["pops"]) >= 2:
            lab.add("two_populations")
        res.labels = sorted(lab)
        res.nontrivial = any(isinstance(c["W"], list) and len(c["W"]) * len(c["W"][0]) >= 4 for c in ps["conns"])
        dt, steps = cfg["dt"], cfg["steps"]
        T = steps * dt
        rm = RefModel(ex_spec)
        kw = dict(solver="scipy", method="RK45", rtol=1e-9, atol=1e-11, verbose=False, clear=True, in_place=False,
                  float_precision="float64")
        try:
            isolate.reset()
            with warnings.catch_warnings():
                warnings.simplefilter("ignore")
                dfe = build_circuit(ex_spec, name="net").run(simulation_time=T, step_size=dt, vectorize=False,
                                                             outputs={f"v{i}": p for i, p in enumerate(rm.state_paths)}, **kw)
            ref = {p: np.asarray(dfe[f"v{i}"], dtype=float).ravel() for i, p in enumerate(rm.state_paths)}
        except HarnessError:
            raise
        except Exception as e:
            res.rejected = f"explicit-network-raises:{type(e).__name__}"
            return res
        allv = np.concatenate(list(ref.values()))
        if not np.all(np.isfinite(allv)) or np.max(np.abs(allv)) > 1e4:
            res.rejected = "reference not benign"
            return res
        outputs, expect = {}, {}
        k = 0
        for name, nt, n, params in ps["pops"]:
            o = ps["ntypes"][nt]["ops"][0]
            for v in ps["ops"][o]["vars"]:
                if v[1] == "state":
                    outputs[f"k{k}"] = f"{name}/{o}/{v[0]}"
                    expect[f"k{k}"] = [ref[f"{name}_u{i}/{o}/{v[0]}"] for i in range(n)]
                    k += 1
        try:
            isolate.reset()
            with warnings.catch_warnings():
                warnings.simplefilter("ignore")
                df = build_population_circuit(ps).run(simulation_time=T, step_size=dt, outputs=dict(outputs), **kw)
        except HarnessError:
            raise
        except Exception as e:
            res.violate(exc_bucket("population-run-raises:scipy", e),
                        f"the explicit network runs under scipy, the population form raised: {short_exc(e)}")
            return res
        scale = 1.0 + float(np.max(np.abs(allv)))
        for key, trajs in expect.items():
            n = len(trajs)
            for i in range(n):
                colv = np.asarray(df[(key, i)] if n > 1 else (df[key] if key in df.columns else df[(key, 0)]), dtype=float)
                colv = colv.reshape(len(colv), -1)[:, 0] if colv.ndim > 1 else colv
                if colv.shape != trajs[i].shape or np.max(np.abs(colv - trajs[i])) > 2e-6 * scale:
                    dev = float(np.max(np.abs(colv - trajs[i]))) / scale if colv.shape == trajs[i].shape else float("nan")
                    res.violate("forms-differ:scipy", f"{outputs[key]} unit {i}: population form and explicit network differ "
                                                      f"under scipy (max dev {dev:.3g} of the scale); conns "
                                                      f"{[(c['s'], c['t'], np.shape(c['W']), c.get('d')) for c in ps['conns']]}")
                    return res
        return res

    sample = MatrixEdgesArm.sample


ARMS = [PopArm(), MatrixEdgesArm(), AdaptiveFormsArm()]
