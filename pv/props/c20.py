"""C20 - unsupported requests fail loudly instead of returning numbers."""
import copy
import warnings

import numpy as np
from hypothesis import strategies as st

from .. import gen
from ..arm import Arm
from ..common import CaseResult, HarnessError, exc_bucket, short_exc
from ..findings import excluded_by
from ..model import RefModel, build_circuit, compile_vf, run_circuit

PROPERTY = {
    "id": "C20",
    "rule": ("(i) EXHAUSTIVE matrix backend{default,torch,jax,fortran} x solver{euler,heun,scipy,diffrax,<bogus>} x "
             "vectorize x delay kind{none,discrete,spread,past} x sparse-Jacobian flag on a fixed two-node model: every "
             "cell whose combination the statement names as unsupported (solver outside the backend's declared "
             "SUPPORTED_SOLVERS, vectorize with fortran, discrete-delay ring buffer on a backend without mutable "
             "buffers, sparse Jacobian on such a backend) must raise before returning a function/DataFrame; the valid "
             "neighbour cell of each row is compiled first so that the raise is attributable. (ii) Hypothesis-generated "
             "valid specs + ONE malformation (each reserved name, a declared name removed, a path component of an edge "
             "or output misspelt, node-level value for a missing operator, two outputs, an in-node operator cycle): "
             "must raise. (iii) extrinsic input / update_var addressed to a missing variable: must raise or emit a "
             "warning. Non-trivial = a must-raise cell / a malformed variant whose valid original compiles; distinct = "
             "canonical JSON of the case."),
    "assumptions": [
        "only the must-raise direction is asserted; any Exception (or, for (iii), any warning) counts as loud",
        "julia/matlab backends are not installed and not part of the matrix",
    ],
}

UNKNOWN_BACKENDS = ["pytorch", "Fortran", "tensorflow"]
BACKENDS = ["default", "torch", "jax", "fortran"] + UNKNOWN_BACKENDS
SOLVERS = ["euler", "heun", "scipy", "diffrax", "bogus_solver"]
DELAYS = ["none", "discrete", "spread", "past", "discrete_then_spread"]

V = lambda n: ["var", n]  # noqa: E731


def matrix_spec(delay):
    rhs = ["bin", "+", ["bin", "*", ["neg", V("a")], V("x")], V("u")]
    if delay == "past":
        rhs = ["bin", "+", rhs, ["bin", "*", ["num", 0.5], ["past", "x", 0.05]]]
    ops = {"op0": {"vars": [["x", "state", 0.3], ["a", "const", 1.0], ["u", "input", 0.1]],
                   "eqs": [["x", True, rhs, 0]], "out": "x"}}
    e = {"s": "p0/op0/x", "t": "p1/op0/u", "w": 2.0, "d": None, "sp": None, "et": None, "scope": ""}
    edges = [e]
    nodes = [["p0", "nt0"], ["p1", "nt1"]]
    if delay in ("discrete", "discrete_then_spread"):
        e["d"] = 0.03
    elif delay == "spread":
        e["d"], e["sp"] = 0.2, 0.1
    ntypes = {"nt0": {"ops": ["op0"], "ov": {}}, "nt1": {"ops": ["op0"], "ov": {"op0": {"x": 0.5}}}}
    if delay == "discrete_then_spread":
        # a discrete-delay edge leaving an earlier node and a gamma-kernel edge leaving a later node
        ntypes["nt2"] = {"ops": ["op0"], "ov": {"op0": {"x": 0.7}}}
        nodes.append(["p2", "nt2"])
        edges.append({"s": "p1/op0/x", "t": "p2/op0/u", "w": 1.5, "d": 0.2, "sp": 0.1, "et": None, "scope": ""})
    return {"ops": ops, "ntypes": ntypes, "nodes": nodes, "edges": edges, "etypes": {}}


def supported(backend):
    from pyrates.backend.base.base_backend import BaseBackend
    cls = BaseBackend
    try:
        if backend == "torch":
            from pyrates.backend.torch.torch_backend import TorchBackend as cls
        elif backend == "jax":
            from pyrates.backend.jax.jax_backend import JaxBackend as cls
        elif backend == "fortran":
            from pyrates.backend.fortran.fortran_backend import FortranBackend as cls
    except Exception:
        return None
    return cls


class MatrixArm(Arm):
    name = "matrix"
    exhaustive = True
    max_shards = 16
    budget = {"quick": 0, "thorough": 0}
    case_timeout = 300

    def enumerate(self, ctx):
        for b in BACKENDS:
            for s in SOLVERS:
                for vec in (False, True):
                    for d in DELAYS:
                        for sparse in (False, True):
                            yield {"backend": b, "solver": s, "vectorize": vec, "delay": d, "sparse": sparse,
                                   "tier": ctx.tier}

    def run(self, case, ctx):
        res = CaseResult()
        b, s, vec, d, sparse = case["backend"], case["solver"], case["vectorize"], case["delay"], case["sparse"]
        if b in UNKNOWN_BACKENDS:
            # a backend name that does not exist is not a request for the NumPy backend
            res.labels = [f"backend:{b}", "must_raise"]
            if s != "euler" or d != "none" or sparse:
                res.rejected = "unknown backend names are tried once per vectorize setting"
                return res
            res.nontrivial = True
            try:
                df = run_circuit(matrix_spec("none"), 0.05, 0.01, {"a": "p0/op0/x"}, solver="euler", backend=b, vectorize=vec)
            except HarnessError:
                raise
            except Exception:
                return res
            res.violate("no-raise:unknown-backend", f"run(backend={b!r}) returned a {type(df).__name__} although no such "
                                                    f"backend exists")
            return res
        cls = supported(b)
        if cls is None:
            res.rejected = "backend not importable"
            return res
        sup = tuple(getattr(cls, "SUPPORTED_SOLVERS", ()))
        reasons = []
        if s not in sup:
            reasons.append(f"solver {s} not in SUPPORTED_SOLVERS{sup} of {b}")
        if b == "fortran" and vec:
            reasons.append("vectorize=True with the fortran backend")
        if d in ("discrete", "discrete_then_spread") and s in ("euler", "heun") and \
                not getattr(cls, "SUPPORTS_EDGE_DELAY_BUFFER", True):
            reasons.append(f"discrete-delay ring buffer on {b} (immutable arrays)")
        if sparse and not getattr(cls, "SUPPORTS_SPARSE_JACOBIAN", True):
            reasons.append(f"sparse Jacobian on {b}")
        res.labels = [f"backend:{b}", f"delay:{d}"] + (["must_raise"] if reasons else ["valid_or_unspecified"])
        if not reasons:
            return res
        # in the quick tier the f2py-compiling baseline of fortran rows is skipped (the raise itself needs no compile)
        res.nontrivial = True
        spec = matrix_spec(d)
        # (listed findings are phrased over model specs: e.g. a discrete delay next to a gamma kernel on one merged source
        #  variable is dropped silently - F-11b - so that no ring buffer exists that a backend could refuse)
        ex = excluded_by("C20", {"spec": spec, "cfg": {"vectorize": vec, "solver": s, "backend": b}}, ctx)
        if ex:
            res.excluded = ex
            return res
        dt, T = 0.01, 0.1
        outputs = {"a": "p0/op0/x", "b": "p1/op0/x"}
        only_sparse = reasons == [f"sparse Jacobian on {b}"]
        kw = dict(method="RK45") if s == "scipy" else {}
        if only_sparse:
            # the sparse flag only matters for get_jacobian_func
            if d == "past" or vec:
                res.labels.append("sparse_cell_not_applicable")
                res.nontrivial = False
                return res
            from .c12 import get_jac
            try:
                from .. import isolate
                isolate.reset()
                circ = build_circuit(spec)
                with warnings.catch_warnings():
                    warnings.simplefilter("ignore")
                    out = circ.get_jacobian_func("pv_jac", step_size=dt, backend=b, vectorize=False, in_place=False,
                                                 clear=False, verbose=False, float_precision="float64", sparse=True,
                                                 solver=s if s in sup else "euler")
            except HarnessError:
                raise
            except Exception:
                return res
            res.violate(f"no-raise:sparse-jacobian:{b}", f"get_jacobian_func(sparse=True, backend={b}) returned {type(out).__name__} "
                                                         f"although the backend declares SUPPORTS_SPARSE_JACOBIAN=False")
            return res
        # attributable: the nearest valid configuration must work
        if not (b == "fortran" and case["tier"] == "quick"):
            base_solver = "scipy" if (d in ("discrete", "discrete_then_spread") and
                                      not getattr(cls, "SUPPORTS_EDGE_DELAY_BUFFER", True)) else "euler"
            try:
                run_circuit(spec, T, dt, dict(outputs), solver=base_solver, backend=b,
                            vectorize=False if b == "fortran" else vec,
                            **(dict(method="RK45") if base_solver == "scipy" else {}))
            except HarnessError:
                raise
            except Exception as e:
                res.rejected = f"valid neighbour cell does not run: {type(e).__name__}"
                res.nontrivial = False
                return res
        try:
            df = run_circuit(spec, T, dt, dict(outputs), solver=s, backend=b, vectorize=vec, **kw)
        except HarnessError:
            raise
        except Exception:
            return res
        res.violate(f"no-raise:{'+'.join(sorted(r.split(' ')[0] for r in reasons))}:{b}",
                    f"run(backend={b}, solver={s}, vectorize={vec}, delay={d}) returned a {type(df).__name__} of shape "
                    f"{getattr(df, 'shape', None)} although: {'; '.join(reasons)}")
        return res

    def sample(self, case):
        return case


class MatrixHistoryArm(Arm):
    """The same matrix walked in ONE process: first every valid (backend, supported solver) cell, then every must-raise
    cell - a guard that remembers what an earlier call accepted must not let a later unsupported request through."""
    name = "matrix_history"
    exhaustive = True
    max_shards = 1
    budget = {"quick": 0, "thorough": 0}
    case_timeout = 900

    def enumerate(self, ctx):
        yield {"history": "valid-cells-then-must-raise-cells", "tier": ctx.tier}

    def run(self, case, ctx):
        res = CaseResult()
        res.nontrivial = True
        spec = matrix_spec("none")
        outputs = {"a": "p0/op0/x", "b": "p1/op0/x"}
        dt, T = 0.01, 0.05
        backends = [b for b in BACKENDS if not (b == "fortran" and case["tier"] == "quick")]
        n_valid = 0
        for b in backends:
            cls = supported(b)
            if cls is None:
                continue
            for s in getattr(cls, "SUPPORTED_SOLVERS", ()):
                if s not in SOLVERS:
                    continue
                try:
                    run_circuit(spec, T, dt, dict(outputs), solver=s, backend=b, vectorize=False,
                                **(dict(method="RK45") if s == "scipy" else {}))
                    n_valid += 1
                except HarnessError:
                    raise
                except Exception:
                    pass
        res.info["valid_cells_run"] = n_valid
        n_checked = 0
        for b in backends:
            cls = supported(b)
            if cls is None:
                continue
            sup = tuple(getattr(cls, "SUPPORTED_SOLVERS", ()))
            for s in SOLVERS:
                if s in sup:
                    continue
                n_checked += 1
                try:
                    df = run_circuit(spec, T, dt, dict(outputs), solver=s, backend=b, vectorize=False)
                except HarnessError:
                    raise
                except Exception:
                    continue
                res.violate(f"no-raise-after-history:{b}:{s}",
                            f"after valid runs of every supported (backend, solver) pair in the same process, "
                            f"run(backend={b}, solver={s}) returned a {type(df).__name__} although {s} is not in "
                            f"SUPPORTED_SOLVERS{sup}")
                return res
        res.info["must_raise_cells_checked"] = n_checked
        res.labels = ["history"]
        return res

    def sample(self, case):
        return case


RESERVED = ['y', 'dy', 'source_idx', 'target_idx', 'pi', 'I', 'E', 'S', 'Q', 'O', 'N', 'oo', 'zoo', 'nan', 'beta', 'gamma',
            'Beta', 'Gamma', 'exp', 'log', 'sin', 'cos', 'tan', 'cot', 'sec', 'csc', 'sinh', 'cosh', 'tanh', 'sqrt', 'abs',
            'x_buffer', 'x_delays', 'x_maxdelay', 'x_idx', 'x_hist']
KINDS = ["reserved_name", "undeclared_variable", "edge_source_misspelt", "edge_target_misspelt", "output_misspelt",
         "value_for_missing_operator", "two_outputs", "operator_cycle", "input_to_missing_variable",
         "update_var_missing_variable"]


def rename_var(spec, op, old, new):
    def ren(a):
        k = a[0]
        if k == "var":
            return ["var", new] if a[1] == old else a
        if k in ("neg", "pow"):
            return [k, ren(a[1])] + a[2:]
        if k == "bin":
            return ["bin", a[1], ren(a[2]), ren(a[3])]
        if k == "call":
            return ["call", a[1]] + [ren(x) for x in a[2:]]
        return a
    od = spec["ops"][op]
    for v in od["vars"]:
        if v[0] == old:
            v[0] = new
    for e in od["eqs"]:
        if e[0] == old:
            e[0] = new
        e[2] = ren(e[2])
    if od.get("out") == old:
        od["out"] = new


@st.composite
def mutant_case(draw):
    spec = draw(gen.model_spec({"leak": True, "max_types": 2, "max_ops": 2, "max_nodes": 3, "min_nodes": 2,
                                "max_edges": 3, "min_edges": 1, "edge_reuse": False, "expr_depth": 2, "collision": False,
                                "depths": [0, 0, 1], "funcs": ["tanh", "sigmoid", "exp"], "pow": False}))
    kind = draw(st.sampled_from(KINDS))
    return {"spec": spec, "kind": kind, "pick": draw(st.integers(0, 1000)),
            "reserved": draw(st.sampled_from(RESERVED)), "cfg": {"vectorize": draw(st.booleans())}}


class MutantArm(Arm):
    name = "mutants"
    budget = {"quick": 1600, "thorough": 16000}
    min_per_shard = 20
    required_labels = tuple("kind:" + k for k in KINDS)

    def strategy(self, ctx):
        from ..finding_predicates import repair_case
        return mutant_case().map(lambda c: repair_case(c, ctx))

    def run(self, case, ctx):
        from .. import isolate
        res = CaseResult()
        ex = excluded_by("C20", case, ctx)
        if ex:
            res.excluded = ex
            return res
        spec, kind, pick, vec = case["spec"], case["kind"], case["pick"], case["cfg"]["vectorize"]
        res.labels = ["kind:" + kind]
        rm = RefModel(spec)
        sp = rm.state_paths
        outputs = {"o0": sp[pick % len(sp)]}
        dt, T = 0.01, 0.05
        # the valid original must run
        try:
            run_circuit(spec, T, dt, dict(outputs), vectorize=vec)
        except HarnessError:
            raise
        except Exception as e:
            res.rejected = f"original-raises:{type(e).__name__}"
            return res
        res.nontrivial = True
        m = copy.deepcopy(spec)
        run_kw = {}
        node_values = None
        update = None
        warn_ok = False
        used_nt = {nt for _, nt in m["nodes"]}
        used_ops = sorted({o for ntn, nt in m["ntypes"].items() if ntn in used_nt for o in nt["ops"]})
        o = used_ops[pick % len(used_ops)]
        od = m["ops"][o]
        if kind == "reserved_name":
            names = [v[0] for v in od["vars"]]
            if case["reserved"] in names:
                res.rejected = "name already present"
                return res
            rename_var(m, o, names[pick % len(names)], case["reserved"])
            for e in m["edges"]:
                e["s"] = e["s"]
            # edges/outputs that referred to the renamed variable are re-pointed so that only the name is at fault
            old = names[pick % len(names)]
            for e in m["edges"]:
                for k in ("s", "t"):
                    parts = e[k].split("/")
                    if parts[-2] == o and parts[-1] == old:
                        e[k] = "/".join(parts[:-1] + [case["reserved"]])
            outputs = {k: ("/".join(p.split("/")[:-1] + [case["reserved"]]) if p.split("/")[-2] == o and p.split("/")[-1] == old else p)
                       for k, p in outputs.items()}
            what = f"variable {old} of {o} renamed to the reserved name {case['reserved']}"
        elif kind == "undeclared_variable":
            from .. import expr as E
            from ..finding_predicates import _effective_vars
            # only variables that actually influence an equation (x - x may legitimately be simplified away)
            used = sorted({v for e in od["eqs"] for v in (E.variables(e[2]) & _effective_vars(e[2]))} -
                          {e[0] for e in od["eqs"]})
            if not used:
                res.rejected = "no removable variable"
                return res
            victim = used[pick % len(used)]
            endpoints = {e[k] for e in m["edges"] for k in ("s", "t")}
            if any(p.endswith(f"/{o}/{victim}") for p in endpoints) or any(p.endswith(f"/{o}/{victim}") for p in outputs.values()):
                res.rejected = "victim is an edge endpoint"
                return res
            od["vars"] = [v for v in od["vars"] if v[0] != victim]
            for nt in m["ntypes"].values():
                if o in (nt.get("ov") or {}):
                    nt["ov"][o].pop(victim, None)
            # a same-named output of another operator of the node would legitimately define it
            what = f"declaration of {victim} removed from {o} (still used in its equations)"
            for p_, ntn in m["nodes"]:
                ops_ = m["ntypes"][ntn]["ops"]
                if o in ops_ and any(m["ops"][o2].get("out") == victim for o2 in ops_ if o2 != o):
                    res.rejected = "another operator of the node outputs that name"
                    return res
        elif kind in ("edge_source_misspelt", "edge_target_misspelt"):
            if not m["edges"]:
                res.rejected = "no edge"
                return res
            e = m["edges"][pick % len(m["edges"])]
            k = "s" if kind == "edge_source_misspelt" else "t"
            parts = e[k].split("/")
            j = (pick // 7) % len(parts)
            parts[j] = parts[j] + "_zz"
            e[k] = "/".join(parts)
            what = f"edge {k} path component misspelt: {e[k]}"
        elif kind == "output_misspelt":
            parts = outputs["o0"].split("/")
            j = (pick // 7) % len(parts)
            parts[j] = parts[j] + "_zz"
            good = outputs["o0"]
            outputs = {"o0": "/".join(parts)}
            if pick % 2:
                # next to a valid request (a misspelt one may not be dropped silently while the rest is served)
                outputs["o1"] = good
            what = f"output path misspelt: {outputs}"
        elif kind == "value_for_missing_operator":
            p_ = m["nodes"][pick % len(m["nodes"])][0]
            if pick % 3 == 0:
                # an existing operator and variable on a node path that does not exist
                o_ = m["ntypes"][m["nodes"][pick % len(m["nodes"])][1]]["ops"][0]
                v_ = m["ops"][o_]["vars"][0][0]
                node_values = {f"{p_}_zz/{o_}/{v_}": 1.0}
            else:
                node_values = {f"{p_}/nonexistent_op/a": 1.0}
            what = f"apply(node_values={node_values})"
        elif kind == "two_outputs":
            cands = [v[0] for v in od["vars"] if v[1] in ("state", "alg") and v[0] != od.get("out")]
            if not cands or not od.get("out"):
                res.rejected = "operator has no second variable"
                return res
            od["out2"] = cands[pick % len(cands)]
            what = f"operator {o} declares two outputs ({od['out']}, {od['out2']})"
        elif kind == "operator_cycle":
            # two operators feeding each other
            p_, ntn = m["nodes"][pick % len(m["nodes"])]
            m["ops"]["cyc_a"] = {"vars": [["ca", "state", 0.1], ["cb", "input", 0.0]],
                                 "eqs": [["ca", True, ["bin", "-", V("cb"), V("ca")], 0]], "out": "ca"}
            m["ops"]["cyc_b"] = {"vars": [["cb", "state", 0.2], ["ca", "input", 0.0]],
                                 "eqs": [["cb", True, ["bin", "-", V("ca"), V("cb")], 0]], "out": "cb"}
            m["ntypes"][ntn]["ops"] = list(m["ntypes"][ntn]["ops"]) + ["cyc_a", "cyc_b"]
            what = f"operators cyc_a and cyc_b of node type {ntn} feed each other"
        elif kind == "input_to_missing_variable":
            p_ = m["nodes"][pick % len(m["nodes"])][0]
            o_ = m["ntypes"][dict(m["nodes"])[p_]]["ops"][0]
            run_kw["inputs"] = {f"{p_}/{o_}/no_such_var": np.linspace(0, 1, 5)}
            warn_ok = True
            what = f"input addressed to {p_}/{o_}/no_such_var"
        elif kind == "update_var_missing_variable":
            p_ = m["nodes"][pick % len(m["nodes"])][0]
            o_ = m["ntypes"][dict(m["nodes"])[p_]]["ops"][0]
            update = {f"{p_}/{o_}/no_such_var": 2.0}
            warn_ok = True
            what = f"update_var(node_vars={update})"
        else:
            raise HarnessError(kind)
        isolate.reset()
        try:
            with warnings.catch_warnings(record=True) as wlist:
                warnings.simplefilter("always")
                circ = _build(m)
                if update:
                    circ.update_var(node_vars=update)
                if node_values:
                    circ.apply(node_values=node_values, vectorize=vec, verbose=False, step_size=dt, backend="default",
                               float_precision="float64")
                    out = "apply returned"
                else:
                    out = circ.run(simulation_time=T, step_size=dt, outputs=dict(outputs), solver="euler", vectorize=vec,
                                   verbose=False, clear=True, in_place=False, float_precision="float64", **run_kw)
                relevant = [w for w in wlist if "PyRates" in type(w.message).__name__ or "pyrates" in str(w.filename)]
        except HarnessError:
            raise
        except Exception:
            return res
        if warn_ok and relevant:
            res.labels.append("warned")
            return res
        res.violate(f"no-raise:{kind}", f"{what}: {'returned ' + type(out).__name__ if not isinstance(out, str) else out} "
                                        f"without raising{' or warning' if warn_ok else ''}")
        return res

    def sample(self, case):
        return {"kind": case["kind"], "nodes": case["spec"]["nodes"], "reserved": case["reserved"], "pick": case["pick"]}


def _build(m):
    """build_circuit with support for the 'two outputs' malformation"""
    from pyrates import OperatorTemplate
    from .. import model as M
    orig = M.build_operator

    def patched(name, od, style=None):
        if "out2" not in od:
            return orig(name, od, style)
        eqs = [M.render_eq(lhs, de, ast, (rest[0] if rest else 0)) for lhs, de, ast, *rest in od["eqs"]]
        variables = {}
        for vname, kind, val in od["vars"]:
            variables[vname] = M.var_decl(kind, val, vname in (od.get("out"), od["out2"]))
        return OperatorTemplate(name=name, equations=eqs, variables=variables, path=None)
    M.build_operator = patched
    try:
        return M.build_circuit(m)
    finally:
        M.build_operator = orig


ARMS = [MatrixArm(), MatrixHistoryArm(), MutantArm()]
