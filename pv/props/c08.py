"""C08 - extrinsic inputs are applied at the right time to the right unit."""
import numpy as np
from hypothesis import strategies as st

from .. import gen
from ..arm import Arm
from ..common import CaseResult, HarnessError, exc_bucket, short_exc
from ..findings import excluded_by
from ..model import RefModel, compile_vf, run_circuit
from .c06 import match

PROPERTY = {
    "id": "C08",
    "rule": ("Hypothesis-generated circuits (leaky dynamics, depth 0-2, 1-5 nodes) with 1-2 extrinsic input arrays of "
             "drawn non-constant values (N = 8..40 samples) in shapes (N,), (N,1), (N,n) sent to single paths or "
             "wildcard selections, next to ordinary edges into the same variables; arm fixed: run() with euler/heun, "
             "vectorize on/off, compared row by row with the reference recurrence in which sample k is the value used "
             "during step k; arm adaptive_func: get_run_func(inputs, adaptive=True) evaluated at random t in "
             "[-0.1T, 1.1T] against the reference vector field fed with np.interp(t, linspace(0,T,N), u); arm "
             "adaptive_run: run(solver='scipy') against the reference integrated with that interpolant. Non-trivial = "
             "input values non-constant and N >= 8 (always by construction) and the driven variable influences a "
             "requested state; distinct = canonical JSON of the case."),
    "assumptions": [
        "only models whose input-free baseline agrees with the reference are judged (others: C01/C04)",
        "one-column-per-node arrays only together with vectorize=True (the only form the implementation accepts)",
        "order of the nodes addressed by a wildcard = declaration order (depth first)",
    ],
}


def ordered_nodes(spec):
    """node paths in the order CircuitTemplate.get_nodes('all') enumerates them (declaration order, depth first)"""
    def rec(entries):
        if all(len(c) == 1 for c, _ in entries):
            return [c[0] for c, _ in entries]
        groups = {}
        for c, p in entries:
            groups.setdefault(c[0], []).append((c[1:], p))
        out = []
        for g, sub in groups.items():
            out += [f"{g}/{x}" for x in rec(sub)]
        return out
    return rec([(p.split("/"), p) for p, _ in spec["nodes"]])


def expand_inputs(spec, rm, inputs):
    """[{target, shape, values}] -> {full variable path: 1-D array} (contributions to one variable add up)"""
    order = ordered_nodes(spec)
    ext = {}
    for inp in inputs:
        *pat, op, var = inp["target"].split("/")
        pattern = "/".join(pat)
        nodes = [p for p in order if match(pattern, p) and f"{p}/{op}/{var}" in rm.kind]
        arr = np.asarray(inp["values"], dtype=float)
        for i, p in enumerate(nodes):
            col = arr if arr.ndim == 1 else (arr[:, 0] if arr.shape[1] == 1 else arr[:, i])
            key = f"{p}/{op}/{var}"
            ext[key] = ext.get(key, 0) + col
    return ext


def pyrates_inputs(inputs):
    out = {}
    for inp in inputs:
        out[inp["target"]] = np.asarray(inp["values"], dtype=float)
    return out


@st.composite
def inputs_strategy(draw, spec, rm, N, vectorize):
    in_vars = [k for k, kd in rm.kind.items() if kd == "input"]
    order = ordered_nodes(spec)
    n_inp = draw(st.integers(1, 2))
    fl = st.floats(-2, 2, allow_nan=False).map(lambda v: round(v, 3))
    out = []
    used_targets = set()
    for _ in range(n_inp):
        tgt = draw(st.sampled_from(in_vars))
        node, op, var = tgt.rsplit("/", 2)
        comps = node.split("/")
        mode = draw(st.integers(0, 3))
        if mode == 0:
            pat = comps
        elif mode == 1:
            pat = ["all"]
        else:
            pat = [c if draw(st.booleans()) else "all" for c in comps]
        target = "/".join(pat + [op, var])
        if target in used_targets:
            continue
        used_targets.add(target)
        nodes = [p for p in order if match("/".join(pat), p) and f"{p}/{op}/{var}" in rm.kind]
        n = len(nodes)
        kinds = ["1d", "1d", "col1"]
        if n >= 2 and vectorize:
            kinds += ["cols", "cols"]
        kind = draw(st.sampled_from(kinds))
        if kind == "1d":
            vals = draw(st.lists(fl, min_size=N, max_size=N))
        elif kind == "col1":
            vals = [[v] for v in draw(st.lists(fl, min_size=N, max_size=N))]
        else:
            vals = draw(st.lists(st.lists(fl, min_size=n, max_size=n), min_size=N, max_size=N))
        out.append({"target": target, "kind": kind, "values": vals, "n_addressed": n})
    return out


def base_case(draw, max_depth_choices=(0, 0, 1, 2), many=False):
    """many: 10-12 nodes of one type - an input that addresses all of them leaves the matrix-product realisation of the
    input edges (default matrix_sparseness 0.1) for the indexed one"""
    spec = draw(gen.model_spec({"leak": True, "max_types": 1 if many else 2, "max_ops": 2, "max_nodes": 12 if many else 5,
                                "min_nodes": 10 if many else 1, "max_edges": 4,
                                "expr_depth": 2, "max_alg": 1, "max_in": 2, "depths": list(max_depth_choices),
                                "collision": False, "funcs": ["sin", "cos", "tanh", "sigmoid", "arctan"],
                                "pow": False}))
    return gen.uniquify_init(spec)


def ensure_input(spec, rm):
    """give the first operator an input variable if the model has none, so that there is something to drive"""
    if any(kd == "input" for kd in rm.kind.values()):
        return spec, rm
    o = spec["ntypes"][spec["nodes"][0][1]]["ops"][0]
    od = spec["ops"][o]
    names = {v[0] for v in od["vars"]}
    nm = next(n for n in ("xin", "xin0", "xin1", "xin2") if n not in names)
    od["vars"].append([nm, "input", 0.1])
    de = [e for e in od["eqs"] if e[1]][0]
    de[2] = ["bin", "+", de[2], ["var", nm]]
    return spec, RefModel(spec)


def has_input(spec):
    return any(v[1] == "input" for od in spec["ops"].values() for v in od["vars"]
               if any(od is spec["ops"][o] for nt in spec["ntypes"].values() for o in nt["ops"]))


def common_labels(case, rm):
    lab = []
    for inp in case["inputs"]:
        lab.append("shape:" + inp["kind"])
        if "all" in inp["target"].split("/")[:-2]:
            lab.append("wildcard")
        if inp["n_addressed"] >= 2:
            lab.append("multi_target")
        if inp["kind"] == "1d" and inp["n_addressed"] >= 2:
            lab.append("broadcast")
        if inp["n_addressed"] >= 10:
            lab.append("addressed>=10:" + inp["kind"])
    ext_targets = set(expand_inputs(case["spec"], rm, case["inputs"]))
    if any(t in rm.in_edges or t in rm.wiring for t in ext_targets):
        lab.append("input_plus_edge_on_one_variable")
    if len(case["inputs"]) >= 2:
        lab.append("two_inputs")
    depth = max(p.count("/") for p, _ in case["spec"]["nodes"])
    lab.append(f"depth={depth}")
    return sorted(set(lab))


class FixedArm(Arm):
    name = "fixed"
    budget = {"quick": 400, "thorough": 6000}
    min_per_shard = 20
    required_labels = ("shape:1d", "shape:col1", "shape:cols", "wildcard", "broadcast",
                       "input_plus_edge_on_one_variable", "heun", "euler", "depth=1", "addressed>=10:1d", "addressed>=10:cols",
                       "backend:jax", "backend:torch", "sampling>step")

    def strategy(self, ctx):
        @st.composite
        def case(draw):
            many = draw(st.integers(0, 5)) == 0
            spec = base_case(draw, many=many)
            rm = RefModel(spec)
            spec, rm = ensure_input(spec, rm)
            # sampling step = m integration steps; one case in eight runs on the jax / torch implementation of the solver
            m = draw(st.sampled_from([1, 1, 1, 2, 5]))
            steps = m * draw(st.integers(max(2, 8 // m), 40 // m))
            vec = True if many else draw(st.booleans())
            extra = draw(st.integers(0, 3))
            inputs = draw(inputs_strategy(spec, rm, steps + extra, vec))
            backend = "default" if many else draw(st.sampled_from(["default"] * 6 + ["jax", "torch"]))
            solver = draw(st.sampled_from(["euler"] if backend == "torch" else ["euler", "heun"]))
            return {"spec": spec, "inputs": inputs,
                    "cfg": {"solver": solver, "dt": draw(st.sampled_from([0.01, 0.05])),
                            "steps": steps, "vectorize": vec, "m": m, "backend": backend}}
        from ..finding_predicates import repair_case
        return case().map(lambda c: repair_case(c, ctx))

    def run(self, case, ctx):
        res = CaseResult()
        ex = excluded_by("C08", case, ctx)
        if ex:
            res.excluded = ex
            return res
        spec, cfg = case["spec"], case["cfg"]
        if not case["inputs"]:
            res.rejected = "no input drawn"
            return res
        rm = RefModel(spec)
        sp = rm.state_paths
        steps, dt, solver, vec = cfg["steps"], cfg["dt"], cfg["solver"], cfg["vectorize"]
        m, backend = int(cfg.get("m", 1)), cfg.get("backend", "default")
        rkw = {"backend": backend, "dts": m * dt} if (m > 1 or backend != "default") else {}
        res.labels = common_labels(case, rm) + [solver, "vec" if vec else "novec", f"backend:{backend}"] + \
            (["sampling>step"] if m > 1 else []) + \
            ["repaired:" + r for r in case.get("_repaired", [])]
        outputs = {f"v{i}": p for i, p in enumerate(sp)}
        # baseline without inputs
        ref0 = rm.simulate(steps, dt, solver=solver)[:steps:m]
        if not np.all(np.isfinite(ref0)) or np.max(np.abs(ref0)) > 1e6:
            res.rejected = "reference not benign"
            return res
        try:
            df0 = run_circuit(spec, steps * dt, dt, dict(outputs), solver=solver, vectorize=vec, **rkw)
            a0 = np.column_stack([np.asarray(df0[f"v{i}"], dtype=float) for i in range(len(sp))])
        except HarnessError:
            raise
        except Exception as e:
            res.rejected = f"baseline-raises:{type(e).__name__}"
            return res
        scale = 1.0 + float(np.max(np.abs(ref0)))
        if a0.shape != ref0.shape or np.max(np.abs(a0 - ref0)) > 1e-8 * scale:
            res.rejected = "input-free baseline deviates from reference (C01/C04)"
            return res
        ext = expand_inputs(spec, rm, case["inputs"])
        ref = rm.simulate(steps, dt, solver=solver, inputs=ext)[:steps:m]
        if not np.all(np.isfinite(ref)) or np.max(np.abs(ref)) > 1e6:
            res.rejected = "reference not benign"
            return res
        res.nontrivial = bool(np.max(np.abs(ref - ref0)) > 1e-6)
        try:
            df = run_circuit(spec, steps * dt, dt, dict(outputs), solver=solver, vectorize=vec,
                             inputs=pyrates_inputs(case["inputs"]), **rkw)
            a = np.column_stack([np.asarray(df[f"v{i}"], dtype=float) for i in range(len(sp))])
        except HarnessError:
            raise
        except Exception as e:
            res.violate(exc_bucket("run-with-inputs-raises", e),
                        f"inputs {[(i['target'], i['kind']) for i in case['inputs']]} vec={vec}: {short_exc(e)}")
            return res
        scale = 1.0 + float(np.max(np.abs(ref)))
        if a.shape != ref.shape:
            res.violate("shape", f"run returned {a.shape}, expected {ref.shape}")
            return res
        if np.max(np.abs(a - ref)) > 1e-8 * scale:
            j = int(np.argmax(np.max(np.abs(a - ref), axis=0)))
            r = int(np.argmax(np.abs(a[:, j] - ref[:, j]) > 1e-8 * scale))
            # diagnose: shifted input?
            hint = ""
            for sh in (-2, -1, 1, 2):
                ext_s = {k: np.roll(v, sh) for k, v in ext.items()}
                alt = rm.simulate(steps, dt, solver=solver, inputs=ext_s)[:steps:m]
                if np.max(np.abs(a[2:-2] - alt[2:-2])) <= 1e-8 * scale:
                    hint = f" (matches the reference with the input shifted by {sh} samples)"
            res.violate(f"wrong-trajectory:{solver}", f"{sp[j]} deviates from the reference recurrence from row {r} on: "
                                                      f"{a[r, j]!r} vs {ref[r, j]!r}; inputs "
                                                      f"{[(i['target'], i['kind'], i['n_addressed']) for i in case['inputs']]}"
                                                      f" vec={vec}{hint}")
        return res

    def valid(self, case):
        """reducer guard: every input must still address as many variables as when it was generated"""
        rm = RefModel(case["spec"])
        order = ordered_nodes(case["spec"])
        for inp in case["inputs"]:
            *pat, op, var = inp["target"].split("/")
            n = sum(1 for p in order if match("/".join(pat), p) and rm.kind.get(f"{p}/{op}/{var}") == "input")
            if n != inp["n_addressed"]:
                return False
        return True

    def sample(self, case):
        return {"nodes": case["spec"]["nodes"], "cfg": case["cfg"],
                "inputs": [{"target": i["target"], "kind": i["kind"], "n_addressed": i["n_addressed"],
                            "values[:4]": i["values"][:4]} for i in case["inputs"]]}


class AdaptiveFuncArm(Arm):
    name = "adaptive_func"
    budget = {"quick": 300, "thorough": 5000}
    min_per_shard = 20
    required_labels = ("shape:1d", "shape:cols", "t_outside_grid")

    def strategy(self, ctx):
        @st.composite
        def case(draw):
            spec = base_case(draw, (0, 0, 1))
            rm = RefModel(spec)
            spec, rm = ensure_input(spec, rm)
            N = draw(st.integers(8, 30))
            vec = draw(st.booleans())
            inputs = draw(inputs_strategy(spec, rm, N, vec))
            ts = draw(st.lists(st.floats(-0.1, 1.1, allow_nan=False), min_size=5, max_size=5))
            ys = draw(gen.probes_strategy(len(rm.state_paths), n=5))
            return {"spec": spec, "inputs": inputs, "ts": ts, "ys": ys,
                    "cfg": {"dt": draw(st.sampled_from([0.01, 0.1])), "N": N, "vectorize": vec}}
        from ..finding_predicates import repair_case
        return case().map(lambda c: repair_case(c, ctx))

    def run(self, case, ctx):
        res = CaseResult()
        ex = excluded_by("C08", case, ctx)
        if ex:
            res.excluded = ex
            return res
        spec, cfg = case["spec"], case["cfg"]
        if not case["inputs"]:
            res.rejected = "no input drawn"
            return res
        rm = RefModel(spec)
        sp = rm.state_paths
        vec, dt, N = cfg["vectorize"], cfg["dt"], cfg["N"]
        T = N * dt
        res.labels = common_labels(case, rm) + ["vec" if vec else "novec"]
        y0 = rm.y0()
        # baseline function without inputs must agree (else not C08's business)
        try:
            c0 = compile_vf(spec, vectorize=vec, step_size=dt, adaptive=True)
            pos = {}
            for k in sp:
                hits = np.where(np.abs(c0.y0 - y0[k]) < 1e-12)[0]
                if len(hits) != 1:
                    res.rejected = "layout ambiguous"
                    return res
                pos[k] = int(hits[0])
            yv = np.zeros(c0.n)
            for k, v in zip(sp, case["ys"][0]):
                yv[pos[k]] = v
            g0 = c0.call(0.0, yv)
            r0 = rm.vf(dict(zip(sp, case["ys"][0])))
            if any(abs(g0[pos[k]] - r0[k][0]) > 1e-9 * r0[k][1] + 1e-12 for k in sp):
                res.rejected = "input-free baseline deviates from reference (C01/C04)"
                return res
        except HarnessError:
            raise
        except Exception as e:
            res.rejected = f"baseline-raises:{type(e).__name__}"
            return res
        try:
            c = compile_vf(spec, vectorize=vec, step_size=dt, adaptive=True, inputs=pyrates_inputs(case["inputs"]))
        except HarnessError:
            raise
        except Exception as e:
            res.violate(exc_bucket("compile-with-inputs-raises", e),
                        f"inputs {[(i['target'], i['kind']) for i in case['inputs']]} vec={vec}: {short_exc(e)}")
            return res
        pos = {}
        for k in sp:
            hits = np.where(np.abs(c.y0[:] - y0[k]) < 1e-12)[0]
            if len(hits) != 1:
                res.rejected = "layout ambiguous with inputs"
                return res
            pos[k] = int(hits[0])
        ext_arr = expand_inputs(spec, rm, case["inputs"])
        grid = np.linspace(0.0, T, N)
        res.nontrivial = True
        for tt, yvals in zip(case["ts"], case["ys"]):
            t = tt * T
            if t < 0 or t > T:
                res.labels.append("t_outside_grid")
            ext = {k: float(np.interp(t, grid, v)) for k, v in ext_arr.items()}
            ref = rm.vf(dict(zip(sp, yvals)), t=t, ext=ext)
            yv = np.zeros(c.n)
            for k, v in zip(sp, yvals):
                yv[pos[k]] = v
            try:
                got = c.call(t, yv)
            except Exception as e:
                res.violate(exc_bucket("call-raises", e), f"t={t}: {short_exc(e)}")
                return res
            for k in sp:
                rv, mag = ref[k]
                if not abs(got[pos[k]] - rv) <= 1e-9 * mag + 1e-11:
                    res.violate("wrong-input-value:adaptive",
                                f"d/dt {k} at t={t!r} (T={T}, N={N}): generated {got[pos[k]]!r}, reference with "
                                f"np.interp(t, linspace(0,T,N), u) {rv!r}; inputs "
                                f"{[(i['target'], i['kind'], i['n_addressed']) for i in case['inputs']]} vec={vec}")
                    return res
        res.labels = sorted(set(res.labels))
        return res

    sample = FixedArm.sample
    valid = FixedArm.valid


class AdaptiveRunArm(Arm):
    name = "adaptive_run"
    budget = {"quick": 120, "thorough": 2000}
    min_per_shard = 8
    case_timeout = 60
    required_labels = ("N_differs_from_T/dt",)

    def strategy(self, ctx):
        @st.composite
        def case(draw):
            spec = base_case(draw, (0, 0, 1))
            rm = RefModel(spec)
            spec, rm = ensure_input(spec, rm)
            N = draw(st.integers(8, 30))
            vec = draw(st.booleans())
            inputs = draw(inputs_strategy(spec, rm, N, vec))
            T = draw(st.sampled_from([0.5, 1.0]))
            return {"spec": spec, "inputs": inputs,
                    "cfg": {"T": T, "dt": draw(st.sampled_from([0.01, 0.05])), "N": N, "vectorize": vec, "n_out": 10,
                            # one run in three uses the torch / jax implementation of the input interpolation
                            "backend": draw(st.sampled_from(["default", "default", "default", "default", "torch", "jax"])),
                            "method": draw(st.sampled_from(["RK45", "DOP853", "LSODA"]))}}
        from ..finding_predicates import repair_case
        return case().map(lambda c: repair_case(c, ctx))

    def run(self, case, ctx):
        from scipy.integrate import solve_ivp
        res = CaseResult()
        ex = excluded_by("C08", case, ctx)
        if ex:
            res.excluded = ex
            return res
        spec, cfg = case["spec"], case["cfg"]
        if not case["inputs"]:
            res.rejected = "no input drawn"
            return res
        rm = RefModel(spec)
        sp = rm.state_paths
        T, dt, N, vec, n_out = cfg["T"], cfg["dt"], cfg["N"], cfg["vectorize"], cfg["n_out"]
        dts = T / n_out
        res.labels = common_labels(case, rm) + ["vec" if vec else "novec", "scipy:" + cfg["method"]]
        if abs(N - T / dt) > 0.5:
            res.labels.append("N_differs_from_T/dt")
        if cfg.get("backend", "default") != "default":
            res.labels.append("backend:" + cfg["backend"])
            if any(i.get("kind") != "1d" for i in case["inputs"]):
                res.labels.append("backend:" + cfg["backend"] + ":multi_column")
        res.nontrivial = True
        y0 = np.array([rm.y0()[p] for p in sp])
        ext_arr = expand_inputs(spec, rm, case["inputs"])
        grid = np.linspace(0.0, T, N)
        times = np.arange(n_out) * dts

        def make_f(with_ext):
            def f(t, y):
                ext = {k: float(np.interp(t, grid, v)) for k, v in ext_arr.items()} if with_ext else None
                d = rm.vf(dict(zip(sp, y)), t=t, ext=ext)
                return np.array([d[p][0] for p in sp])
            return f
        outputs = {f"v{i}": p for i, p in enumerate(sp)}
        kw = dict(method=cfg["method"], rtol=1e-8, atol=1e-10)
        try:
            with np.errstate(all="ignore"):
                s0 = solve_ivp(make_f(False), (0.0, T), y0, method="DOP853", rtol=1e-10, atol=1e-12, t_eval=times)
                s1 = solve_ivp(make_f(True), (0.0, T), y0, method="DOP853", rtol=1e-10, atol=1e-12, t_eval=times,
                               max_step=T / (N - 1) / 2)
        except Exception as e:
            res.rejected = f"reference integration failed:{type(e).__name__}"
            return res
        if not (s0.success and s1.success) or s1.y.size == 0 or s0.y.shape != s1.y.shape or \
                np.max(np.abs(s1.y)) > 1e4 or not np.all(np.isfinite(s1.y)):
            res.rejected = "reference not benign"
            return res
        try:
            df0 = run_circuit(spec, T, dt, dict(outputs), solver="scipy", vectorize=vec, dts=dts, **kw)
            a0 = np.column_stack([np.asarray(df0[f"v{i}"], dtype=float) for i in range(len(sp))])
        except HarnessError:
            raise
        except Exception as e:
            res.rejected = f"baseline-raises:{type(e).__name__}"
            return res
        r0 = s0.y.T
        if a0.shape != r0.shape or np.max(np.abs(a0 - r0) / (1 + np.abs(r0))) > 2e-5:
            res.rejected = "input-free baseline deviates from reference (C01/C03/C04)"
            return res
        try:
            df = run_circuit(spec, T, dt, dict(outputs), solver="scipy", vectorize=vec, dts=dts,
                             backend=cfg.get("backend", "default"),
                             inputs=pyrates_inputs(case["inputs"]), max_step=T / (N - 1) / 2, **kw)
            a = np.column_stack([np.asarray(df[f"v{i}"], dtype=float) for i in range(len(sp))])
        except HarnessError:
            raise
        except Exception as e:
            res.violate(exc_bucket("run-with-inputs-raises", e),
                        f"scipy, inputs {[(i['target'], i['kind']) for i in case['inputs']]} vec={vec}: {short_exc(e)}")
            return res
        r1 = s1.y.T
        if a.shape != r1.shape:
            res.violate("shape", f"run returned {a.shape}, expected {r1.shape}")
            return res
        err = float(np.max(np.abs(a - r1) / (1 + np.abs(r1))))
        if err > 1e-3:
            res.violate("wrong-trajectory:adaptive", f"scipy {cfg['method']} with inputs of N={N} samples on T={T} "
                                                     f"(dt={dt}): max rel. deviation {err:.3g} from the solution driven by "
                                                     f"np.interp(t, linspace(0,T,N), u)")
        return res

    sample = FixedArm.sample
    valid = FixedArm.valid


ARMS = [FixedArm(), AdaptiveFuncArm(), AdaptiveRunArm()]
