"""C12 - get_jacobian_func returns the derivative of get_run_func."""
import warnings

import numpy as np
from hypothesis import strategies as st

from .. import gen
from ..arm import Arm
from ..common import CaseResult, HarnessError, exc_bucket, short_exc
from ..findings import excluded_by
from ..model import RefModel, build_circuit, compile_vf
from .c10 import Hist, add_past_terms, base_strategy

PROPERTY = {
    "id": "C12",
    "rule": ("Hypothesis-generated scalar (vectorize=False) models over the documented function set (incl. sigmoid, "
             "absv, transcendental functions, algebraic intermediates, in-node wiring and edges), optionally with "
             "past() terms; the matrix returned by the function from get_jacobian_func is compared entry by entry with "
             "5-point central differences (h=1e-3 and 5e-4; entries where the two step sizes disagree, i.e. kinks, are "
             "skipped) of the function from get_run_func compiled from the same spec, in float64, same state ordering, "
             "at 3 random states; for delayed models J0 and each J_tau are obtained by perturbing y resp. the value the "
             "history returns at exactly t-tau_k; sparse=True must give the same matrices. Non-trivial = >=1 "
             "off-diagonal non-zero entry and >=1 nonlinear term; distinct = canonical JSON of the case."),
    "assumptions": [
        "tolerance 1e-6*(1+|J|) on central differences whose two step sizes agree to 1e-7",
        "auto-07p DFDU/DFDP blocks are checked in C18's check",
    ],
}
PROPERTY["rule"] += ' A third of the models use x0..x3 as parameter and state names.'


def get_jac(spec, dt, sparse=False, solver="euler"):
    from .. import isolate
    isolate.reset()
    circ = build_circuit(spec)
    with warnings.catch_warnings():
        warnings.simplefilter("ignore")
        return circ.get_jacobian_func("pv_jac", step_size=dt, backend="default", vectorize=False, in_place=False,
                                      clear=False, verbose=False, float_precision="float64", sparse=sparse,
                                      solver=solver)


def fd5(f, x, h):
    n = x.size
    cols = []
    for j in range(n):
        e = np.zeros(n)
        e[j] = h
        cols.append((-f(x + 2 * e) + 8 * f(x + e) - 8 * f(x - e) + f(x - 2 * e)) / (12 * h))
    return np.array(cols).T


def kinks(f, x, h=1e-4):
    """entries at which forward and backward differences disagree: the function is not differentiable there (absv at
    0): such entries are not judged"""
    n = x.size
    f0 = f(x)
    fw, bw = [], []
    for j in range(n):
        e = np.zeros(n)
        e[j] = h
        fw.append((f(x + e) - f0) / h)
        bw.append((f0 - f(x - e)) / h)
    fw, bw = np.array(fw).T, np.array(bw).T
    return ~(np.abs(fw - bw) <= 1e-2 * (1 + np.abs(fw)))


class OdeArm(Arm):
    name = "ode"
    budget = {"quick": 1200, "thorough": 10000}
    min_per_shard = 20
    required_labels = ("f:sigmoid", "f:tanh", "f:exp", "alg_intermediate", "edge", "sparse")

    def strategy(self, ctx):
        @st.composite
        def case(draw):
            spec = draw(gen.model_spec({"max_types": 2, "max_ops": 2, "max_nodes": 3, "max_edges": 4, "expr_depth": 3,
                                        "depths": [0, 0, 1], "collision": False,
                                        # (names that sympy uses for the temporaries of common sub-expressions)
                                        "extra_names": draw(st.sampled_from([None, None, ["x0", "x1", "x2", "x3"]])),
                                        "funcs": draw(st.sampled_from([
                                            ["tanh", "sigmoid", "exp", "log", "tan"],
                                            ["tanh", "sigmoid", "exp", "log", "tan"],
                                            ["tanh", "sigmoid", "exp", "log", "arctan"],
                                            ["sin", "cos", "tanh", "sigmoid", "arctan", "exp", "absv", "log", "sinh",
                                             "cosh", "tan", "arcsin", "arccos"]]))}))
            rm = RefModel(spec)
            return {"spec": spec, "cfg": {"vectorize": False, "sparse": draw(st.sampled_from([False, False, True]))},
                    "ys": draw(gen.probes_strategy(len(rm.state_paths), n=3, lo=-1.5, hi=1.5))}
        from ..finding_predicates import repair_case
        return case().map(lambda c: repair_case(c, ctx))

    def run(self, case, ctx):
        from .. import expr as E
        res = CaseResult()
        ex = excluded_by("C12", case, ctx)
        if ex:
            res.excluded = ex
            return res
        spec, cfg = case["spec"], case["cfg"]
        rm = RefModel(spec)
        sp = rm.state_paths
        funcs = set()
        for od in spec["ops"].values():
            for e in od["eqs"]:
                funcs |= E.funcs_used(e[2])
        lab = ["f:" + f for f in sorted(funcs)]
        if any(v[1] == "alg" for od in spec["ops"].values() for v in od["vars"]):
            lab.append("alg_intermediate")
        if spec["edges"]:
            lab.append("edge")
        if cfg["sparse"]:
            lab.append("sparse")
        res.labels = lab
        try:
            c = compile_vf(spec, vectorize=False, step_size=1e-3)
            pos = c.positions()
            if set(pos) != set(sp):
                res.rejected = "layout incomplete (C01)"
                return res
            c.call(0.0, c.y0)
        except HarnessError:
            raise
        except Exception as e:
            res.rejected = f"run-func-raises:{type(e).__name__}"
            return res
        try:
            jf, jargs, jnames, jsvm = get_jac(spec, 1e-3, sparse=cfg["sparse"])
        except HarnessError:
            raise
        except Exception as e:
            res.violate(exc_bucket("get_jacobian_func-raises", e), f"model compiles with get_run_func but: {short_exc(e)}")
            return res
        jpos = {k: (int(v[0]) if isinstance(v, (tuple, list)) else int(v)) for k, v in jsvm.items()}
        if set(jpos) != set(sp) or any(jpos[k] != pos[k][0] for k in sp):
            res.violate("state-ordering", f"Jacobian state map {jpos} differs from run-function map "
                                          f"{ {k: v[0] for k, v in pos.items()} }")
            return res
        nontriv = False
        for yvals in case["ys"]:
            y = np.zeros(c.n)
            for k, v in zip(sp, yvals):
                y[pos[k][0]] = v
            try:
                with np.errstate(all="ignore"):
                    f = lambda x: c.call(0.0, x)
                    J1 = fd5(f, y, 1e-3)
                    J2 = fd5(f, y, 5e-4)
            except Exception as e:
                res.rejected = f"run-func-call-raises:{type(e).__name__}"
                return res
            try:
                J = jf(0.0, np.array(y), *jargs[2:])
                if hasattr(J, "toarray"):
                    J = J.toarray()
                elif cfg["sparse"]:
                    res.violate("sparse-container", f"sparse=True returned {type(J).__name__}")
                    return res
                J = np.asarray(J, dtype=float)
            except Exception as e:
                res.violate(exc_bucket("jacobian-call-raises", e), f"{short_exc(e)}")
                return res
            if J.shape != (c.n, c.n):
                res.violate("shape", f"Jacobian has shape {J.shape}, state dimension {c.n}")
                return res
            smooth = np.isfinite(J1) & np.isfinite(J2) & (np.abs(J1 - J2) <= 1e-7 * (1 + np.abs(J1)))
            if "absv" in funcs:
                with np.errstate(all="ignore"):
                    smooth &= ~kinks(f, y)
            bad = smooth & ~(np.abs(J - J1) <= 1e-6 * (1 + np.abs(J1)))
            res.info["entries_checked"] = res.info.get("entries_checked", 0) + int(np.sum(smooth))
            res.info["entries_skipped_nonsmooth"] = res.info.get("entries_skipped_nonsmooth", 0) + int(np.sum(~smooth))
            off = ~np.eye(c.n, dtype=bool)
            if np.any(np.abs(J1[off]) > 1e-9) if c.n > 1 else False:
                nontriv = True
            if np.any(bad):
                i, j = [int(v[0]) for v in np.where(bad)]
                inv = {v[0]: k for k, v in pos.items()}
                res.violate("wrong-entry", f"d f[{inv[i]}] / d {inv[j]} : Jacobian {J[i, j]!r}, central differences of "
                                           f"the run function {J1[i, j]!r} (state {y.tolist()})")
                return res
        res.nontrivial = nontriv and bool(funcs)
        return res

    def sample(self, case):
        from ..model import render_eq
        spec = case["spec"]
        return {"ops": {o: [render_eq(*e) for e in od["eqs"]] for o, od in spec["ops"].items()},
                "nodes": spec["nodes"], "edges": [[e["s"], e["t"], e["w"]] for e in spec["edges"]], "cfg": case["cfg"]}


class DdeArm(Arm):
    name = "dde"
    budget = {"quick": 800, "thorough": 6000}
    min_per_shard = 12
    required_labels = ("delayed_var_not_first", "two_delays", "sparse_two_delays")

    def strategy(self, ctx):
        @st.composite
        def case(draw):
            base = draw(gen.model_spec({"leak": True, "max_types": 2, "max_ops": 2, "max_nodes": 2, "max_edges": 3,
                                        "depths": [0, 0, 1], "expr_depth": 2, "collision": False, "max_alg": 1,
                                        "extra_names": draw(st.sampled_from([None, None, ["x0", "x1", "x2", "x3"]])),
                                        "funcs": ["tanh", "sigmoid", "exp", "log", "tan"], "pow": False}))
            spec, pairs = add_past_terms(draw, gen.uniquify_init(base), mult_rate=3)
            rm = RefModel(spec)
            fl = st.floats(-1.5, 1.5, allow_nan=False).map(lambda v: round(v, 3))
            return {"spec": spec, "cfg": {"vectorize": False, "dt": 0.01, "sparse": draw(st.sampled_from([False, False, True])),
                                          "fixed": draw(st.sampled_from([False, False, True]))},
                    "hist": [draw(fl), draw(fl), draw(fl), draw(st.sampled_from([1.0, 2.0]))],
                    "ts": draw(st.lists(st.floats(0.5, 3.0, allow_nan=False).map(lambda v: round(v, 2)), min_size=2, max_size=2)),
                    "ys": draw(gen.probes_strategy(len(rm.state_paths), n=2, lo=-1.5, hi=1.5))}
        from ..finding_predicates import repair_case
        return case().map(lambda c: repair_case(c, ctx))

    def run(self, case, ctx):
        from .. import expr as E
        res = CaseResult()
        ex = excluded_by("C12", case, ctx)
        if ex:
            res.excluded = ex
            return res
        spec = case["spec"]
        rm = RefModel(spec)
        sp = rm.state_paths
        delays = set()
        dvars = set()
        for p_, nt in spec["nodes"]:
            for o in spec["ntypes"][nt]["ops"]:
                od = spec["ops"][o]
                vals = {v[0]: v[2] for v in od["vars"]}
                for e in od["eqs"]:
                    for t_ in E.past_terms(e[2]):
                        d = t_[2]
                        delays.add(round(float(vals[d[1]] if isinstance(d, list) else d), 9))
                        dvars.add(f"{p_}/{o}/{t_[1]}")
        if not delays:
            res.rejected = "no delayed term"
            return res
        delays = sorted(delays)
        try:
            fixed = bool(case["cfg"].get("fixed"))
            c = compile_vf(spec, vectorize=False, step_size=0.01, adaptive=not fixed)
            pos = c.positions()
            if not c.dde or set(pos) != set(sp):
                res.rejected = "run function has no hist argument / layout incomplete (C10/C01)"
                return res
        except HarnessError:
            raise
        except Exception as e:
            res.rejected = f"run-func-raises:{type(e).__name__}"
            return res
        lab = []
        if len(delays) >= 2:
            lab.append("two_delays")
        if any(pos[v][0] != 0 for v in dvars):
            lab.append("delayed_var_not_first")
        if case["cfg"].get("sparse"):
            lab.append("sparse")
            if len(delays) >= 2:
                lab.append("sparse_two_delays")
        if fixed:
            lab.append("fixed_step")
        res.labels = lab
        res.nontrivial = len(delays) >= 2 or any(pos[v][0] != 0 for v in dvars)
        try:
            jf, jargs, jnames, jsvm = get_jac(spec, 0.01, sparse=bool(case["cfg"].get("sparse")),
                                              solver="euler" if fixed else "scipy")
        except HarnessError:
            raise
        except Exception as e:
            res.violate(exc_bucket("get_jacobian_func-raises", e), f"delays {delays}: {short_exc(e)}")
            return res
        for tt, yvals in zip(case["ts"], case["ys"]):
            if fixed:
                # functions for fixed-step solvers take the step counter: both must read the history at t*dt - tau
                tt = float(int(abs(tt) * 20) + 30)
            t_hist = tt * 0.01 if fixed else tt
            y = np.zeros(c.n)
            for k, v in zip(sp, yvals):
                y[pos[k][0]] = v
            base_hist = Hist(c.n, case["hist"])

            def f_y(x):
                return c.call(tt, x, hist=Hist(c.n, case["hist"]))

            def make_f_tau(tau):
                def f(delta):
                    def h(tq):
                        v = Hist(c.n, case["hist"])(tq)
                        return v + delta if abs(tq - (t_hist - tau)) < 1e-9 else v
                    return c.call(tt, y, hist=h)
                return f
            try:
                with np.errstate(all="ignore"):
                    J0a, J0b = fd5(f_y, y, 1e-3), fd5(f_y, y, 5e-4)
            except Exception as e:
                res.rejected = f"run-func-call-raises:{type(e).__name__}"
                return res
            try:
                hist_arg = Hist(c.n, case["hist"])
                args = list(jargs[2:])
                if "hist" in jnames:
                    args[jnames.index("hist") - 2] = hist_arg
                out = jf(tt, np.array(y), *args)
            except Exception as e:
                res.violate(exc_bucket("jacobian-call-raises", e), f"delays {delays}: {short_exc(e)}")
                return res
            try:
                J0, Jt = out
                if case["cfg"].get("sparse"):
                    # sparse=True changes only the container
                    if not all(hasattr(j, "toarray") for j in [J0] + list(Jt)):
                        res.violate("sparse-container", f"sparse=True returned {[type(j).__name__ for j in [J0] + list(Jt)]}")
                        return res
                    J0, Jt = J0.toarray(), [j.toarray() for j in Jt]
                J0 = np.asarray(J0, dtype=float)
                Jt = [np.asarray(j, dtype=float) for j in Jt]
            except Exception as e:
                res.violate("return-format", f"expected (J0, [J_tau...]) got {type(out).__name__}: {short_exc(e)}")
                return res
            if len(delays) ** len(Jt) > 60000:
                res.rejected = "too many history Jacobians to match exhaustively"
                return res
            inv = {v[0]: k for k, v in pos.items()}
            smooth = np.abs(J0a - J0b) <= 1e-7 * (1 + np.abs(J0a))
            bad = smooth & ~(np.abs(J0 - J0a) <= 1e-6 * (1 + np.abs(J0a)))
            if np.any(bad):
                i, j = [int(v[0]) for v in np.where(bad)]
                res.violate("wrong-entry:J0", f"d f[{inv[i]}]/d {inv[j]} at t={tt}: J0 {J0[i, j]!r} vs differences {J0a[i, j]!r}")
                return res
            # history Jacobians: the implementation orders them by delay as they appear; match by best fit
            refs = []
            for tau in delays:
                ft = make_f_tau(tau)
                z = np.zeros(c.n)
                with np.errstate(all="ignore"):
                    refs.append((fd5(ft, z, 1e-3), fd5(ft, z, 5e-4)))
            # delays given by parameters are distinct by parameter (two parameters may carry the same value), so several
            # returned matrices may belong to one numeric delay: some assignment of returned matrices to delays must
            # reproduce every reference matrix as the sum of its group
            import itertools
            ok = False
            for assign in itertools.product(range(len(delays)), repeat=len(Jt)):
                good = True
                for k, (Ja, Jb) in enumerate(refs):
                    sm = np.abs(Ja - Jb) <= 1e-7 * (1 + np.abs(Ja))
                    tot = sum((Jt[m] for m in range(len(Jt)) if assign[m] == k), np.zeros_like(Ja))
                    if tot.shape != Ja.shape or np.any(sm & ~(np.abs(tot - Ja) <= 1e-6 * (1 + np.abs(Ja)))):
                        good = False
                        break
                if good:
                    ok = True
                    break
            if not ok:
                res.violate("wrong-entry:J_tau", f"the returned history Jacobians {[np.round(j, 6).tolist() for j in Jt]} do "
                                                 f"not reproduce d f / d y(t-tau) for tau in {delays}: "
                                                 f"{[np.round(r[0], 6).tolist() for r in refs]} (state order "
                                                 f"{[inv[i] for i in range(c.n)]})")
                return res
        return res

    sample = OdeArm.sample


ARMS = [OdeArm(), DdeArm()]
