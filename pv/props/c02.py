"""C02 - all backends compute the same function for the same model."""
import numpy as np
from hypothesis import strategies as st

from .. import gen
from ..arm import Arm
from ..common import CaseResult, HarnessError, exc_bucket, short_exc
from ..findings import excluded_by
from ..model import RefModel, compile_vf, run_circuit
from .c08 import ensure_input, expand_inputs, pyrates_inputs

PROPERTY = {
    "id": "C02",
    "rule": ("Hypothesis-generated models compiled for torch, jax and fortran and for the NumPy backend with the same "
             "settings (vectorize on/off where allowed, in-place and returned-array convention, float64 and float32): "
             "arm vf - the vector field at 3 random states must agree with the NumPy backend AND with the reference "
             "interpreter for every frontend state variable (positions by initial-value fingerprint), returned argument "
             "values must agree by frontend name; arm interp - get_run_func(inputs, adaptive=True) at random t inside, at "
             "and outside the grid against np.interp; arm traj - run() with every solver the backend declares as "
             "supported (euler/heun/scipy/diffrax), sampling step a multiple of the step, extrinsic input, against the "
             "NumPy backend run with the same settings (fixed step: 1e-8 float64; adaptive: 1e-4). Non-trivial = the "
             "model has >=2 equations and >=1 connection, or uses interp / a solver override; distinct = canonical JSON."),
    "assumptions": [
        "float32 arm compared at 2e-4 relative, float64 at 1e-9*M+1e-12 (vf) / 1e-8 (fixed-step trajectories)",
        "a model that the NumPy backend itself refuses is counted as rejected; a model that NumPy compiles/runs and the other "
        "backend refuses (inside the generated feature set: Fortran without vectorisation, elementary functions, sigmoid, "
        "pi/E, solvers the backend declares) is a violation",
        "julia/matlab backends and GPU devices are not available",
    ],
}

SAFE_FUNCS = ["sin", "cos", "tanh", "sigmoid", "exp", "arctan"]


def base_spec(draw, small=False):
    spec = draw(gen.model_spec({"leak": True, "max_types": 2, "max_ops": 2, "max_nodes": 3 if small else 4,
                                "max_edges": 4, "depths": [0, 0, 1], "expr_depth": 2, "collision": False, "max_alg": 1,
                                "funcs": SAFE_FUNCS, "pow": draw(st.booleans())}))
    return gen.uniquify_init(spec)


def positions(c, rm):
    y0 = rm.y0()
    pos = {}
    for k in rm.state_paths:
        hits = np.where(np.abs(c.y0 - y0[k]) < 1e-6 * (1 + abs(y0[k])))[0]
        if len(hits) != 1:
            return None
        pos[k] = int(hits[0])
    return pos


def add_constant_term(spec, draw):
    """add c*E, c*pi or c*E*pi to one differential equation: every backend has its own definition of the documented
    constants (numpy import, torch tensors, Fortran parameters)"""
    ops = sorted(o for nt in spec["ntypes"].values() for o in nt["ops"])
    o = ops[draw(st.integers(0, len(ops) - 1))]
    des = [e for e in spec["ops"][o]["eqs"] if e[1]]
    if not des:
        return spec
    e = des[draw(st.integers(0, len(des) - 1))]
    c = ["num", draw(st.sampled_from([0.5, 0.25, 1.5]))]
    k = draw(st.sampled_from([["const", "E"], ["const", "pi"], ["bin", "*", ["const", "E"], ["const", "pi"]],
                              ["bin", "/", ["const", "pi"], ["const", "E"]],
                              # ratios of integer literals (written 1/4, 2/3: an integer division in typed languages)
                              ["bin", "/", ["num", 1.0], ["num", 4.0]], ["bin", "/", ["num", 2.0], ["num", 3.0]]]))
    # (a float factor would be folded into the ratio by sympy: the ratio stands alone)
    term = k if (k[0] == "bin" and k[2][0] == "num") else ["bin", "*", c, k]
    e[2] = ["bin", draw(st.sampled_from(["+", "-"])), e[2], term]
    return spec


def add_clip_term(spec, draw):
    """add maxi(x, c) / mini(x, c) with a numeric bound c (and once with another variable) to one differential equation"""
    ops = sorted(o for nt in spec["ntypes"].values() for o in nt["ops"])
    o = ops[draw(st.integers(0, len(ops) - 1))]
    od = spec["ops"][o]
    des = [e for e in od["eqs"] if e[1]]
    states = [v[0] for v in od["vars"] if v[1] == "state"]
    if not des or not states:
        return spec
    e = des[draw(st.integers(0, len(des) - 1))]
    x = ["var", draw(st.sampled_from(states))]
    bound = ["num", draw(st.sampled_from([0.2, -0.5, 1.0]))]
    other = ["var", draw(st.sampled_from(states))] if draw(st.integers(0, 3)) == 0 else bound
    term = ["call", draw(st.sampled_from(["maxi", "mini"])), x, other]
    e[2] = ["bin", draw(st.sampled_from(["+", "-"])), e[2], ["bin", "*", ["num", 0.5], term]]
    return spec


class VfArm(Arm):
    name = "vf"
    budget = {"quick": 400, "thorough": 5000}
    min_per_shard = 12
    case_timeout = 240
    required_labels = ("torch", "jax", "fortran", "float32", "vec", "returned_array", "const_E:fortran", "const_pi:fortran",
                       "const_pi:torch", "const_E:jax", "then_other_precision:jax", "then_other_precision:torch")

    def strategy(self, ctx):
        @st.composite
        def case(draw):
            be = draw(st.sampled_from(["torch", "torch", "torch", "jax", "jax", "jax", "fortran"]))
            spec = base_spec(draw, small=(be == "fortran"))
            if draw(st.integers(0, 2)) == 0:
                spec = add_constant_term(spec, draw)
            if draw(st.integers(0, 3)) == 0:
                spec = add_clip_term(spec, draw)
            vec = draw(st.booleans()) if be != "fortran" else False
            rm = RefModel(spec)
            return {"spec": spec, "cfg": {"backend": be, "vectorize": vec,
                                          "inplace": (draw(st.booleans()) if vec else True),
                                          "then_other_precision": draw(st.sampled_from([False, False, True])),
                                          "precision": draw(st.sampled_from(["float64", "float64", "float32"]))},
                    "ys": draw(gen.probes_strategy(len(rm.state_paths), n=3, lo=-1.5, hi=1.5))}
        from ..finding_predicates import repair_case
        return case().map(lambda c: repair_case(c, ctx))

    def run(self, case, ctx):
        res = CaseResult()
        ex = excluded_by("C02", case, ctx)
        if ex:
            res.excluded = ex
            return res
        spec, cfg = case["spec"], case["cfg"]
        be, vec, inpl, prec = cfg["backend"], cfg["vectorize"], cfg["inplace"], cfg["precision"]
        rm = RefModel(spec)
        sp = rm.state_paths
        res.labels = [be, prec, "vec" if vec else "novec", "in_place" if inpl else "returned_array"]
        from ..finding_predicates import _all_asts, _uses_const
        for cn in ("E", "pi"):
            if any(_uses_const(a, cn) for a in _all_asts(case)):
                res.labels.append(f"const_{cn}:{be}")
        n_eq = sum(len(spec["ops"][o]["eqs"]) for p, nt in spec["nodes"] for o in spec["ntypes"][nt]["ops"])
        res.nontrivial = n_eq >= 2 and bool(rm.wiring or rm.edges)
        try:
            c0 = compile_vf(spec, backend="default", vectorize=vec, inplace=inpl, float_precision=prec)
            p0 = positions(c0, rm)
            if p0 is None:
                res.rejected = "layout ambiguous"
                return res
            ref_np = []
            for yv in case["ys"]:
                y = np.zeros(c0.n)
                for k, v in zip(sp, yv):
                    y[p0[k]] = v
                ref_np.append(c0.call(0.0, y))
            names0 = {nm: np.asarray(a, dtype=float) for nm, a in zip(c0.names[2:], [np.asarray(x) if not hasattr(x, "detach") else x for x in c0.args[2:]])
                      if nm in rm.kind}
        except HarnessError:
            raise
        except Exception as e:
            res.rejected = f"numpy-backend-raises:{type(e).__name__}"
            return res
        try:
            c = compile_vf(spec, backend=be, vectorize=vec, inplace=inpl, float_precision=prec)
        except HarnessError:
            raise
        except Exception as e:
            # the generated models stay inside what every backend accepts (Fortran: vectorize=False; elementary functions,
            # sigmoid, the documented constants): a backend that cannot compile what the NumPy backend compiles does not
            # "yield a function that agrees"
            res.violate(exc_bucket(f"backend-refuses:{be}", e),
                        f"{be} backend raised on a model the NumPy backend compiles: {short_exc(e)}")
            return res
        if cfg.get("then_other_precision") and be in ("jax", "torch"):
            # both precisions of one backend are used in one session: the function obtained first must keep computing in
            # its own precision after a model of the other precision was compiled (backend-wide precision switches)
            try:
                compile_vf(spec, backend=be, vectorize=vec, inplace=inpl, func_name="pv_vf_other",
                           float_precision="float32" if prec == "float64" else "float64")
                res.labels.append(f"then_other_precision:{be}")
            except HarnessError:
                raise
            except Exception:
                pass
        if be == "fortran" and "F-18a" in ctx.active_findings:
            from ..model import LAST_FORTRAN_FILE, fortran_inexact_literals
            if fortran_inexact_literals(LAST_FORTRAN_FILE[0]):
                res.excluded = "F-18a"
                return res
        p1 = positions(c, rm)
        if p1 is None or c.n != c0.n:
            res.violate(f"layout:{be}", f"state vector of the {be} function (y0={c.y0}) does not hold each declared initial "
                                        f"value exactly once (NumPy: {c0.y0})")
            return res
        from ..model import _to_numpy
        for nm, a in zip(c.names[2:], c.args[2:]):
            if nm in names0:
                v = np.asarray(_to_numpy(a), dtype=float)
                if v.shape != names0[nm].shape or not np.allclose(v, names0[nm], rtol=1e-6 if prec == "float32" else 1e-12, atol=1e-12):
                    res.violate(f"argvalue:{be}", f"argument {nm}: {be} {v} vs NumPy {names0[nm]}")
                    return res
        rtol = 2e-4 if prec == "float32" else 1e-9
        for yv, r0 in zip(case["ys"], ref_np):
            y = np.zeros(c.n)
            for k, v in zip(sp, yv):
                y[p1[k]] = v
            try:
                got = c.call(0.0, y)
            except Exception as e:
                res.violate(exc_bucket(f"call-raises:{be}", e), f"{be} function raised where the NumPy one works: {short_exc(e)}")
                return res
            ref = rm.vf(dict(zip(sp, yv)))
            for k in sp:
                rv, mag = ref[k]
                a, b = got[p1[k]], r0[p0[k]]
                if not np.isfinite(rv) or abs(rv) > 1e6:
                    continue
                if not abs(a - b) <= rtol * (mag + abs(b)) + 1e-10:
                    side = be if abs(b - rv) <= abs(a - rv) else "numpy"
                    res.violate(f"backends-disagree:{be}:{prec}", f"d/dt {k}: {be} {a!r} vs NumPy {b!r} (reference {rv!r}; "
                                                                   f"{side} is off), vectorize={vec}, in_place={inpl}")
                    return res
        return res

    def sample(self, case):
        from ..model import render_eq
        spec = case["spec"]
        return {"ops": {o: [render_eq(*e) for e in od["eqs"]] for o, od in spec["ops"].items()},
                "nodes": spec["nodes"], "edges": [[e["s"], e["t"], e["w"]] for e in spec["edges"]], "cfg": case["cfg"]}


class InterpArm(Arm):
    name = "interp"
    budget = {"quick": 260, "thorough": 3000}
    min_per_shard = 10
    case_timeout = 240
    required_labels = ("torch", "jax", "fortran", "t_outside_grid")

    def strategy(self, ctx):
        @st.composite
        def case(draw):
            be = draw(st.sampled_from(["torch", "torch", "jax", "jax", "fortran"]))
            spec = base_spec(draw, small=True)
            rm = RefModel(spec)
            spec, rm = ensure_input(spec, rm)
            N = draw(st.integers(8, 24))
            in_vars = sorted(k for k, kd in rm.kind.items() if kd == "input")
            fl = st.floats(-2, 2, allow_nan=False).map(lambda v: round(v, 3))
            inputs = [{"target": draw(st.sampled_from(in_vars)), "kind": "1d", "n_addressed": 1,
                       "values": draw(st.lists(fl, min_size=N, max_size=N))}]
            return {"spec": spec, "inputs": inputs,
                    "cfg": {"backend": be, "vectorize": (draw(st.booleans()) if be != "fortran" else False), "dt": 0.1, "N": N},
                    "ts": draw(st.lists(st.one_of(st.floats(-0.1, 1.1, allow_nan=False),
                                                  st.sampled_from([0.0, 1.0, 0.5])), min_size=5, max_size=5)),
                    "ys": draw(gen.probes_strategy(len(rm.state_paths), n=5, lo=-1.5, hi=1.5))}
        from ..finding_predicates import repair_case
        return case().map(lambda c: repair_case(c, ctx))

    def run(self, case, ctx):
        res = CaseResult()
        ex = excluded_by("C02", case, ctx)
        if ex:
            res.excluded = ex
            return res
        spec, cfg = case["spec"], case["cfg"]
        be, vec, dt, N = cfg["backend"], cfg["vectorize"], cfg["dt"], cfg["N"]
        rm = RefModel(spec)
        sp = rm.state_paths
        T = N * dt
        res.labels = [be, "vec" if vec else "novec"]
        res.nontrivial = True
        ext_arr = expand_inputs(spec, rm, case["inputs"])
        grid = np.linspace(0.0, T, N)
        try:
            c0 = compile_vf(spec, backend="default", vectorize=vec, step_size=dt, adaptive=True,
                            inputs=pyrates_inputs(case["inputs"]))
            p0 = positions(c0, rm)
            if p0 is None:
                res.rejected = "layout ambiguous"
                return res
        except HarnessError:
            raise
        except Exception as e:
            res.rejected = f"numpy-backend-raises:{type(e).__name__}"
            return res
        try:
            c = compile_vf(spec, backend=be, vectorize=vec, step_size=dt, adaptive=True, inputs=pyrates_inputs(case["inputs"]))
            p1 = positions(c, rm)
            if p1 is None:
                res.rejected = "layout ambiguous"
                return res
        except HarnessError:
            raise
        except Exception as e:
            res.violate(exc_bucket(f"backend-refuses:{be}", e),
                        f"{be} backend raised on a model the NumPy backend compiles: {short_exc(e)}")
            return res
        if be == "fortran" and "F-18a" in ctx.active_findings:
            from ..model import LAST_FORTRAN_FILE, fortran_inexact_literals
            if fortran_inexact_literals(LAST_FORTRAN_FILE[0]):
                res.excluded = "F-18a"
                return res
        for tt, yv in zip(case["ts"], case["ys"]):
            t = tt * T
            if t < 0 or t > T:
                res.labels.append("t_outside_grid")
            ext = {k: float(np.interp(t, grid, v)) for k, v in ext_arr.items()}
            ref = rm.vf(dict(zip(sp, yv)), t=t, ext=ext)
            y0v, y1v = np.zeros(c0.n), np.zeros(c.n)
            for k, v in zip(sp, yv):
                y0v[p0[k]] = v
                y1v[p1[k]] = v
            try:
                g0 = c0.call(t, y0v)
            except Exception as e:
                res.rejected = f"numpy-call-raises:{type(e).__name__}"
                return res
            if any(abs(g0[p0[k]] - ref[k][0]) > 1e-9 * ref[k][1] + 1e-10 for k in sp):
                res.rejected = "NumPy backend itself deviates from the reference (C01/C08)"
                return res
            try:
                g1 = c.call(t, y1v)
            except Exception as e:
                res.violate(exc_bucket(f"call-raises:{be}", e), f"t={t}: {short_exc(e)}")
                return res
            for k in sp:
                if not abs(g1[p1[k]] - ref[k][0]) <= 1e-9 * ref[k][1] + 1e-9:
                    res.violate(f"interp-differs:{be}", f"d/dt {k} at t={t!r} (grid linspace(0,{T},{N})): {be} {g1[p1[k]]!r}, "
                                                        f"NumPy/np.interp {ref[k][0]!r}")
                    return res
        res.labels = sorted(set(res.labels))
        return res

    sample = VfArm.sample


class TrajArm(Arm):
    name = "traj"
    budget = {"quick": 240, "thorough": 3000}
    min_per_shard = 8
    case_timeout = 300
    required_labels = ("torch:euler", "jax:euler", "jax:heun", "jax:diffrax", "fortran:euler", "input", "m>=2")

    def strategy(self, ctx):
        @st.composite
        def case(draw):
            be = draw(st.sampled_from(["torch", "jax", "jax", "fortran"]))
            sol = {"torch": ["euler", "scipy"], "jax": ["euler", "heun", "scipy", "diffrax"],
                   "fortran": ["euler", "heun", "scipy"]}[be]
            spec = base_spec(draw, small=True)
            rm = RefModel(spec)
            spec, rm = ensure_input(spec, rm)
            steps = draw(st.integers(12, 40))
            m = draw(st.sampled_from([1, 2, 3, 4]))
            steps = max(m, (steps // m) * m)
            inputs = []
            if draw(st.booleans()):
                in_vars = sorted(k for k, kd in rm.kind.items() if kd == "input")
                fl = st.floats(-2, 2, allow_nan=False).map(lambda v: round(v, 3))
                inputs = [{"target": draw(st.sampled_from(in_vars)), "kind": "1d", "n_addressed": 1,
                           "values": draw(st.lists(fl, min_size=steps, max_size=steps))}]
            return {"spec": spec, "inputs": inputs,
                    "cfg": {"backend": be, "solver": draw(st.sampled_from(sol)), "dt": 0.01, "steps": steps, "m": m,
                            "again_other_dt": draw(st.sampled_from([False, True])),
                            "vectorize": (draw(st.booleans()) if be != "fortran" else False)}}
        from ..finding_predicates import repair_case
        return case().map(lambda c: repair_case(c, ctx))

    def run(self, case, ctx):
        res = CaseResult()
        ex = excluded_by("C02", case, ctx)
        if ex:
            res.excluded = ex
            return res
        spec, cfg = case["spec"], case["cfg"]
        be, solver, dt, steps, m, vec = cfg["backend"], cfg["solver"], cfg["dt"], cfg["steps"], cfg["m"], cfg["vectorize"]
        rm = RefModel(spec)
        sp = rm.state_paths
        T, dts = steps * dt, m * dt
        res.labels = [f"{be}:{solver}", "vec" if vec else "novec"] + (["input"] if case["inputs"] else []) + \
                     (["m>=2"] if m >= 2 else [])
        res.nontrivial = True
        outputs = {f"v{i}": p for i, p in enumerate(sp)}
        inputs = pyrates_inputs(case["inputs"]) if case["inputs"] else None
        adaptive = solver in ("scipy", "diffrax")
        kw = dict(rtol=1e-8, atol=1e-10) if adaptive else {}
        if solver == "scipy":
            kw["method"] = "RK45"
        np_solver = "scipy" if solver == "diffrax" else solver
        kw0 = dict(kw)
        if solver == "diffrax":
            kw0["method"] = "DOP853"
        if adaptive and inputs:
            kw["max_step"] = T / (steps - 1) / 2 if solver == "scipy" else None
            kw0["max_step"] = T / (steps - 1) / 2
            if kw["max_step"] is None:
                kw.pop("max_step")
        try:
            df0 = run_circuit(spec, T, dt, dict(outputs), solver=np_solver, backend="default", vectorize=vec, dts=dts,
                              inputs=dict(inputs) if inputs else None, **kw0)
            a0 = np.column_stack([np.asarray(df0[f"v{i}"], dtype=float) for i in range(len(sp))])
        except HarnessError:
            raise
        except Exception as e:
            res.rejected = f"numpy-backend-raises:{type(e).__name__}"
            return res
        if not np.all(np.isfinite(a0)) or np.max(np.abs(a0)) > 1e6:
            res.rejected = "trajectory not benign"
            return res
        if adaptive and np.max(np.abs(a0)) > 50.0 * (1.0 + np.max(np.abs(a0[0]))):
            # (two adaptive integrations of a rapidly growing solution differ by the solver tolerance times the growth)
            res.rejected = "trajectory grows too fast for a comparison of adaptive solvers"
            return res
        try:
            df = run_circuit(spec, T, dt, dict(outputs), solver=solver, backend=be, vectorize=vec, dts=dts,
                             inputs=dict(inputs) if inputs else None, **kw)
            a = np.column_stack([np.asarray(df[f"v{i}"], dtype=float) for i in range(len(sp))])
        except HarnessError:
            raise
        except Exception as e:
            res.violate(exc_bucket(f"backend-refuses:{be}:{solver}", e),
                        f"{be} backend, solver {solver}: run() raised on a model and settings that the NumPy backend runs: {short_exc(e)}")
            return res
        if a.shape != a0.shape:
            res.violate(f"shape:{be}:{solver}", f"{be} returned {a.shape}, NumPy {a0.shape} (T={T}, dt={dt}, dts={dts})")
            return res
        i0 = np.asarray(df0.index, dtype=float)
        i1 = np.asarray(df.index, dtype=float)
        if np.max(np.abs(i0 - i1)) > 1e-9:
            res.violate(f"time-index:{be}:{solver}", f"index differs: {i1[:4]} vs NumPy {i0[:4]}")
            return res
        tol = 1e-4 if adaptive else 1e-8
        err = float(np.max(np.abs(a - a0) / (1 + np.abs(a0))))
        if err > tol and adaptive and inputs:
            # a piecewise-linear input has kinks that an embedded error estimate does not see: what a solver achieves then
            # depends on where its steps fall (the NumPy run itself may be 2e-4 off). Both runs are measured against a much
            # tighter integration; the backend may not be materially worse than the NumPy backend is
            try:
                dfr = run_circuit(spec, T, dt, dict(outputs), solver="scipy", backend="default", vectorize=vec, dts=dts,
                                  inputs=dict(inputs), rtol=1e-12, atol=1e-13, method="DOP853", max_step=T / (steps - 1) / 8)
                ar = np.column_stack([np.asarray(dfr[f"v{i}"], dtype=float) for i in range(len(sp))])
                e0 = float(np.max(np.abs(a0 - ar) / (1 + np.abs(ar))))
                e1 = float(np.max(np.abs(a - ar) / (1 + np.abs(ar))))
                res.info["judged_against_tight_reference"] = 1
                if e1 <= max(tol, 10.0 * e0):
                    return res
            except HarnessError:
                raise
            except Exception:
                pass
        if err > tol:
            j = int(np.argmax(np.max(np.abs(a - a0), axis=0)))
            r = int(np.argmax(np.abs(a[:, j] - a0[:, j]) / (1 + np.abs(a0[:, j])) > tol))
            res.violate(f"trajectory-differs:{be}:{solver}", f"{sp[j]} from row {r} on: {be} {a[r, j]!r} vs NumPy {a0[r, j]!r} "
                                                             f"(max rel. dev {err:.3g}; dt={dt}, dts={dts}, input={bool(inputs)}, vec={vec})")
            return res
        if cfg.get("again_other_dt") and not adaptive and not inputs and be != "fortran":
            # the same model once more in this process, with the same numbers of steps but twice the step size (no cache
            # is reset in between: what a backend keeps from the first run must not leak into the second)
            from ..model import build_circuit
            dt2 = 2 * dt
            res.labels.append(f"again_other_dt:{be}")
            try:
                df2 = run_circuit(spec, steps * dt2, dt2, dict(outputs), solver=solver, backend=be, vectorize=vec, dts=m * dt2,
                                  circuit=build_circuit(spec))
                a2 = np.column_stack([np.asarray(df2[f"v{i}"], dtype=float) for i in range(len(sp))])
                df02 = run_circuit(spec, steps * dt2, dt2, dict(outputs), solver=solver, backend="default", vectorize=vec,
                                   dts=m * dt2)
                a02 = np.column_stack([np.asarray(df02[f"v{i}"], dtype=float) for i in range(len(sp))])
            except HarnessError:
                raise
            except Exception as e:
                res.violate(exc_bucket(f"second-run-raises:{be}:{solver}", e),
                            f"second run of the same model with step size {dt2}: {short_exc(e)}")
                return res
            if not np.all(np.isfinite(a02)) or np.max(np.abs(a02)) > 1e6:
                return res
            err2 = float(np.max(np.abs(a2 - a02) / (1 + np.abs(a02)))) if a2.shape == a02.shape else float("inf")
            if err2 > 1e-8:
                res.violate(f"second-run-differs:{be}:{solver}",
                            f"a second run of the same model in one process with step size {dt2} (first: {dt}) deviates from "
                            f"the NumPy backend at these settings (max rel. dev {err2:.3g}; vec={vec})")
        return res

    sample = VfArm.sample


ARMS = [VfArm(), InterpArm(), TrajArm()]
