"""C01 - the generated vector field equals the model the user wrote (NumPy backend)."""
import copy

import numpy as np
from hypothesis import strategies as st

from .. import gen
from ..arm import Arm
from ..common import CaseResult, HarnessError, exc_bucket, short_exc
from ..findings import excluded_by
from ..model import RefModel, compile_vf, spec_features

PROPERTY = {
    "id": "C01",
    "rule": ("Hypothesis-generated circuits (1-3 node types x 1-3 operators x 1-4 equations, 1-6 nodes, depth 0-2, "
             "0-8 weighted edges incl. parallel edges, fan-in, two variables of one node into one target, several input "
             "variables per operator, names from families resembling generated names, permuted declaration orders, "
             "per-node overrides), compiled with get_run_func (NumPy, float64, vectorize off/on, in-place and "
             "returned-array conventions) and compared POINTWISE with an independent interpreter of the spec at 4 "
             "random states and 2 parameter assignments passed through the returned argument list; also state layout "
             "(distinct positions covering y), y0 and argument values. Non-trivial = >=2 equations and >=1 connection "
             "(edge or in-node wiring); distinct = canonical JSON of (spec, config)."),
    "assumptions": [
        "reference interpreter pv/model.py:RefModel (own AST evaluator, NumPy float64) is the meaning of the spec",
        "tolerance |impl-ref| <= 1e-9*M + 1e-12 with M the magnitude bound of the expression (sympy re-association)",
        "algebraic loops across nodes are not generated (no unique meaning)",
    ],
}
PROPERTY["rule"] += ' Arm vf_cross_type: projections between two node types (1-3 sources, 2-12 targets, pairwise distinct targets, optional back projection), vectorised; with ten and more targets of a scalar source the indexed edge path is taken.'

RTOL, ATOL = 1e-9, 1e-12


def check_vf(spec, cfg, probes, pprobes, res: CaseResult, tag=""):
    rm = RefModel(spec)
    sp = rm.state_paths
    vec = bool(cfg.get("vectorize"))
    try:
        c = compile_vf(spec, vectorize=vec, inplace=bool(cfg.get("inplace", True)),
                       **({"matrix_sparseness": cfg["matrix_sparseness"]} if cfg.get("matrix_sparseness") is not None else {}))
    except HarnessError:
        raise
    except Exception as e:
        res.violate(exc_bucket(f"compile-raises{tag}", e), f"get_run_func raised on a well-formed model: {short_exc(e)}")
        return None
    # ---- layout --------------------------------------------------------------------------------------
    y0_ref = rm.y0()
    pos = {}
    if not vec:
        p = c.positions()
        if set(p) != set(sp):
            res.violate(f"layout:keys{tag}", f"state_var_map keys {sorted(p)} != declared state variables {sorted(sp)}")
            return None
        flat = [i for k in sp for i in p[k]]
        if sorted(flat) != list(range(c.n)) or any(len(p[k]) != 1 for k in sp):
            res.violate(f"layout:positions{tag}", f"positions {p} do not partition range({c.n})")
            return None
        pos = {k: p[k][0] for k in sp}
        bad = [k for k in sp if abs(c.y0[pos[k]] - y0_ref[k]) > 1e-12]
        if bad:
            res.violate(f"y0{tag}", f"initial state of {bad[0]} is {c.y0[pos[bad[0]]]} declared {y0_ref[bad[0]]}")
            return None
    else:
        # positions by fingerprint (initial values are unique by construction)
        if c.n != len(sp):
            res.violate(f"layout:size{tag}", f"state vector has {c.n} entries, model declares {len(sp)} state variables")
            return None
        for k in sp:
            hits = np.where(np.abs(c.y0 - y0_ref[k]) < 1e-12)[0]
            if len(hits) != 1:
                res.violate(f"y0{tag}", f"declared initial value {y0_ref[k]} of {k} occurs {len(hits)} times in y0={c.y0}")
                return None
            pos[k] = int(hits[0])
        if len(set(pos.values())) != len(sp):
            res.violate(f"layout:positions{tag}", f"positions {pos} not distinct")
            return None
        # the returned map must point into the right merged vector
        p = c.positions()
        for k, idxs in p.items():
            if k in pos and pos[k] not in idxs:
                res.violate(f"layout:map{tag}", f"state_var_map[{k}]={idxs} does not contain its position {pos[k]}")
                return None
    # ---- argument values -----------------------------------------------------------------------------
    named = {}
    for i, nm in enumerate(c.names[2:], start=2):
        if nm in rm.kind and rm.kind[nm] in ("const", "input"):
            named[nm] = i
    if not vec:
        for nm, i in named.items():
            a = np.asarray(c.args[i], dtype=float)
            if rm.kind[nm] == "input" and (nm in rm.in_edges or nm in rm.wiring):
                continue
            if a.size != 1 or abs(float(a.ravel()[0]) - rm.values[nm]) > 1e-12:
                res.violate(f"argvalue{tag}", f"argument {nm} = {a} but declared value is {rm.values[nm]}")
                return None
    # ---- values at probes ----------------------------------------------------------------------------
    n_checked = 0
    for pi, yv in enumerate(probes):
        y = dict(zip(sp, yv))
        yvec = np.zeros(c.n)
        for k in sp:
            yvec[pos[k]] = y[k]
        variants = [(None, None)]
        if not vec and pi < len(pprobes) and named:
            params = {}
            ov = {}
            for j, (nm, i) in enumerate(sorted(named.items())):
                if rm.kind[nm] == "input" and (nm in rm.in_edges or nm in rm.wiring):
                    continue
                v = pprobes[pi][j % len(pprobes[pi])]
                params[nm] = v
                ov[nm] = v
            variants.append((params, ov))
        for params, ov in variants:
            ref = rm.vf(y, params)
            try:
                got = c.call(0.0, yvec, ov)
            except Exception as e:
                res.violate(exc_bucket(f"call-raises{tag}", e), f"generated function raised: {short_exc(e)}")
                return None
            if got.size != c.n:
                res.violate(f"dy-shape{tag}", f"function returned {got.size} values for {c.n} states")
                return None
            for k in sp:
                rv, mag = ref[k]
                if not np.isfinite(rv) or abs(rv) > 1e6:
                    res.info["discarded_numerics"] = res.info.get("discarded_numerics", 0) + 1
                    continue
                n_checked += 1
                if not abs(got[pos[k]] - rv) <= RTOL * mag + ATOL:
                    what = "param-probe" if params else "state-probe"
                    res.violate(f"wrong-derivative{tag}",
                                f"d/dt {k}: generated {got[pos[k]]!r} reference {rv!r} (|diff|={abs(got[pos[k]] - rv):.3g}, "
                                f"M={mag:.3g}, {what} {pi})")
                    return None
    res.info["derivatives_checked"] = res.info.get("derivatives_checked", 0) + n_checked
    return c


def labels_for(spec, rm):
    f = spec_features(spec)
    names = {v[0] for od in spec["ops"].values() for v in od["vars"]}
    if names & set(gen.COLLISION_NAMES):
        f.add("collision_name")
    if rm.wiring:
        f.add("in_node_wiring")
        if any(len(v) > 1 for v in rm.wiring.values()):
            f.add("input_multiply_driven_in_node")
    if any(e.get("et") for e in spec["edges"]):
        f.add("edge_template")
    if any(e.get("xs") for e in spec["edges"]):
        f.add("edge_operator_second_input")
    unconnected = [k for k, kd in rm.kind.items() if kd == "input" and k not in rm.in_edges and k not in rm.wiring]
    if unconnected:
        f.add("unconnected_input_default")
    for o, od in spec["ops"].items():
        ins = [v[0] for v in od["vars"] if v[1] == "input"]
        if len(ins) >= 2:
            for p, nt in spec["nodes"]:
                if o in spec["ntypes"][nt]["ops"]:
                    drv = [len(rm.wiring.get(f"{p}/{o}/{i}", [])) + len(rm.in_edges.get(f"{p}/{o}/{i}", [])) for i in ins]
                    if max(drv) >= 2:
                        f.add("multi_input_op_one_multiply_driven")
    return sorted(f)


class VfArm(Arm):
    name = "vf"
    budget = {"quick": 420, "thorough": 8000}
    min_per_shard = 20
    vectorize = False
    required_labels = ("multi_input_op", "parallel_edges", "two_vars_one_node_same_target", "collision_name",
                       "unconnected_input_default", "depth>=1", "in_node_wiring", "fan_in", "self_connection", "edge_template",
                       "edge_operator_second_input")

    def strategy(self, ctx):
        vec = self.vectorize

        @st.composite
        def case(draw):
            spec = draw(gen.model_spec({"overrides": True}))
            if draw(st.integers(0, 5)) == 0:
                # edges through (shared) EdgeTemplates: an algebraic edge operator with per-edge values, every third one
                # with a second input that is fed from a named variable
                spec = draw(gen.with_edge_templates(spec, same_keys=True if vec else None))
            if vec:
                spec = gen.uniquify_init(spec)
            rm = RefModel(spec)
            probes = draw(gen.probes_strategy(len(rm.state_paths), n=4))
            pp = draw(st.lists(st.lists(st.floats(-2, 2, allow_nan=False).map(lambda v: round(v, 3)), min_size=4,
                                        max_size=4), min_size=2, max_size=2))
            return {"spec": spec, "cfg": {"vectorize": vec, "inplace": True},
                    "probes": probes, "pprobes": pp}
        from ..finding_predicates import repair_case
        return case().map(lambda c: repair_case(c, ctx))

    def run(self, case, ctx):
        res = CaseResult()
        spec = case["spec"]
        ex = excluded_by("C01", case, ctx)
        if ex:
            res.excluded = ex
            return res
        rm = RefModel(spec)
        res.labels = labels_for(spec, rm) + ["repaired:" + r for r in case.get("_repaired", [])]
        n_eq = sum(len(spec["ops"][o]["eqs"]) for p, nt in spec["nodes"] for o in spec["ntypes"][nt]["ops"])
        res.nontrivial = n_eq >= 2 and bool(rm.wiring or rm.edges)
        check_vf(spec, case["cfg"], case["probes"], case["pprobes"], res)
        return res

    def sample(self, case):
        from ..model import render_eq
        spec = case["spec"]
        return {"ops": {o: [render_eq(*e) for e in od["eqs"]] for o, od in spec["ops"].items()},
                "nodes": spec["nodes"], "edges": [[e.get("scope", ""), e["s"], e["t"], e["w"]] for e in spec["edges"]],
                "cfg": case["cfg"], "probe0": case["probes"][0]}


class VfVecArm(VfArm):
    name = "vf_vectorized"
    vectorize = True
    budget = {"quick": 300, "thorough": 6000}
    required_labels = ("parallel_edges", "fan_in", "edge_template")    # (unique initial values: no shared node templates)


class VfCrossTypeArm(VfArm):
    """vectorised vector field of projections between two node types (the shapes of C04's cross_type arm: 1-3 source nodes,
    2-12 target nodes, pairwise distinct targets, optional back projection): with ten and more targets of one scalar
    source the edges are realised by indexing instead of a matrix product, and the weight argument must hold one value
    per edge"""
    name = "vf_cross_type"
    vectorize = True
    budget = {"quick": 120, "thorough": 2000}
    min_per_shard = 6
    required_labels = ("targets>=10",)

    def strategy(self, ctx):
        from .c04 import CrossTypeArm
        inner = CrossTypeArm().strategy(ctx)

        @st.composite
        def case(draw):
            c = draw(inner)
            rm = RefModel(c["spec"])
            probes = draw(gen.probes_strategy(len(rm.state_paths), n=3))
            pp = draw(st.lists(st.lists(st.floats(-2, 2, allow_nan=False).map(lambda v: round(v, 3)), min_size=4,
                                        max_size=4), min_size=2, max_size=2))
            cfg = {"vectorize": True, "inplace": True}
            if c["cfg"].get("matrix_sparseness") is not None:
                cfg["matrix_sparseness"] = c["cfg"]["matrix_sparseness"]
            return {"spec": c["spec"], "cfg": cfg, "probes": probes, "pprobes": pp, "shape": c.get("shape"), "m": c.get("m", 0),
                    "_repaired": c.get("_repaired", [])}
        return case()

    def run(self, case, ctx):
        if case.get("shape") == "none":
            res = CaseResult()
            res.rejected = "node type without input or state variable"
            return res
        res = super().run(case, ctx)
        if case.get("m", 0) >= 10:
            res.labels = sorted(set(res.labels) | {"targets>=10"})
        return res


ARMS = [VfArm(), VfVecArm(), VfCrossTypeArm()]
