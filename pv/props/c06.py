"""C06 - a variable path addresses the same variable everywhere (outputs of run())."""
import numpy as np
from hypothesis import strategies as st

from .. import gen
from ..arm import Arm
from ..common import CaseResult, HarnessError, exc_bucket, short_exc
from ..findings import excluded_by
from ..model import RefModel, run_circuit

PROPERTY = {
    "id": "C06",
    "rule": ("Hypothesis-generated circuits (flat, depth 1, depth 2; 2-6 nodes of 1-2 node types with per-node "
             "fingerprints so that every trajectory is distinct; drawn permutation of node declaration order) x output "
             "requests drawn from {single path, 'all' at each hierarchy level, bare 'all'} in dict form (1-3 keys) or "
             "list form, vectorize on/off. Oracle: reference interpreter trajectories (Euler); every returned column is "
             "parsed per the documented label formats and must carry the trajectory of the variable ITS LABEL names, and "
             "the set of columns must be exactly the addressed set. Non-trivial = one request addresses >=2 nodes whose "
             "trajectories differ; distinct = canonical JSON of (spec, request, vectorize)."),
    "assumptions": [
        "no order between columns of different nodes is demanded",
        "only state variables are requested; only full-length patterns or the bare 'all' wildcard are generated",
    ],
}


def match(pattern, path):
    pc = pattern.split("/")
    nc = path.split("/")
    if pc == ["all"]:
        return True
    if len(pc) != len(nc):
        return False
    return all(a == "all" or a == b for a, b in zip(pc, nc))


def addressed(spec, rm, request):
    """request 'pattern/op/var' -> list of full variable paths"""
    *pat, op, var = request.split("/")
    pattern = "/".join(pat)
    out = []
    for p, nt in spec["nodes"]:
        if match(pattern, p) and f"{p}/{op}/{var}" in rm.kind:
            out.append(f"{p}/{op}/{var}")
    return out


@st.composite
def request_strategy(draw, spec, rm):
    sp = rm.state_paths
    form = draw(st.sampled_from(["dict", "dict", "list"]))
    n_keys = draw(st.integers(1, 3))
    reqs = []
    for _ in range(n_keys):
        target = draw(st.sampled_from(sp))
        node, op, var = target.rsplit("/", 2)
        comps = node.split("/")
        mode = draw(st.integers(0, 4))
        if mode == 0:
            pat = comps
        elif mode == 1:
            pat = ["all"]
        else:
            pat = [c if draw(st.booleans()) else "all" for c in comps]
        reqs.append("/".join(pat + [op, var]))
    if form == "dict":
        return {"form": "dict", "outputs": {f"key{i}": r for i, r in enumerate(reqs)}}
    return {"form": "list", "outputs": list(dict.fromkeys(reqs))}


class OutputsArm(Arm):
    name = "outputs"
    budget = {"quick": 500, "thorough": 8000}
    min_per_shard = 20
    required_labels = ("node_named_like_a_variable", "form:list", "form:dict", "wildcard", "depth>=1", "depth>=2", "vec", "novec", "multi_node_key",
                       "recompiled:other:in_place", "recompiled:same")

    def strategy(self, ctx):
        @st.composite
        def case(draw):
            spec = draw(gen.model_spec({"leak": True, "max_types": 2, "max_ops": 2, "max_nodes": 6, "min_nodes": 2,
                                        "max_edges": 5, "expr_depth": 2, "max_alg": 1, "max_in": 2,
                                        "depths": [0, 0, 1, 1, 2], "collision": False}))
            spec = gen.uniquify_init(spec)
            if all("/" not in p for p, _ in spec["nodes"]) and draw(st.integers(0, 3)) == 0:
                # node names that are also names of variables of the generated function / of the model
                pool = ["t", "y", "dy", "hist", "weight", "x", "r", "all_", "in_edge_0"]
                k = draw(st.integers(1, min(2, len(spec["nodes"]))))
                new = draw(st.lists(st.sampled_from(pool), min_size=k, max_size=k, unique=True))
                ren = {spec["nodes"][i][0]: new[i] for i in range(k)}
                spec["nodes"] = [[ren.get(p, p), nt] for p, nt in spec["nodes"]]
                for e in spec["edges"]:
                    for key in ("s", "t"):
                        head, rest = e[key].split("/", 1)
                        e[key] = ren.get(head, head) + "/" + rest
                    for k2, v in list((e.get("xs") or {}).items()):
                        head, rest = v.split("/", 1)
                        e["xs"][k2] = ren.get(head, head) + "/" + rest
            if len(spec["ntypes"]) >= 2 and draw(st.integers(0, 3)) == 0:
                # structurally different node templates that carry the same template name (and no path)
                spec["same_nt_names"] = True
            rm = RefModel(spec)
            req = draw(request_strategy(spec, rm))
            return {"spec": spec, "req": req,
                    "cfg": {"vectorize": draw(st.booleans()), "dt": 0.01, "steps": draw(st.integers(6, 14)),
                            "recompiled": draw(st.sampled_from([None, None, "same", "other"])), "in_place": draw(st.booleans())}}
        from ..finding_predicates import repair_case
        return case().map(lambda c: repair_case(c, ctx))

    def run(self, case, ctx):
        res = CaseResult()
        ex = excluded_by("C06", case, ctx)
        if ex:
            res.excluded = ex
            return res
        spec, req, cfg = case["spec"], case["req"], case["cfg"]
        rm = RefModel(spec)
        sp = rm.state_paths
        steps, dt = cfg["steps"], cfg["dt"]
        ref = rm.simulate(steps, dt)[:steps]
        if not np.all(np.isfinite(ref)) or np.max(np.abs(ref)) > 1e6:
            res.rejected = "reference not benign"
            return res
        traj = {p: ref[:, i] for i, p in enumerate(sp)}
        scale = 1.0 + float(np.max(np.abs(ref)))
        form = req["form"]
        depth = max(p.count("/") for p, _ in spec["nodes"])
        lab = [f"form:{form}", "vec" if cfg["vectorize"] else "novec"]
        if depth >= 1:
            lab.append("depth>=1")
        if depth >= 2:
            lab.append("depth>=2")
        if any(p in ("t", "y", "dy", "hist", "weight", "x", "r", "all_", "in_edge_0") for p, _ in spec["nodes"]):
            lab.append("node_named_like_a_variable")
        if spec.get("same_nt_names"):
            lab.append("same_node_template_names")
        requests = req["outputs"]
        items = list(requests.items()) if form == "dict" else [(r, r) for r in requests]
        expected = {}
        for key, r in items:
            expected[key] = addressed(spec, rm, r)
            if "all" in r.split("/")[:-2]:
                lab.append("wildcard")
            if len(expected[key]) >= 2:
                lab.append("multi_node_key")
        res.labels = sorted(set(lab)) + ["repaired:" + r for r in case.get("_repaired", [])]
        res.nontrivial = any(len(v) >= 2 for v in expected.values())
        # the model must at least simulate with the most basic request form, otherwise it is not C06's business
        try:
            base = run_circuit(spec, steps * dt, dt, {f"v{i}": p for i, p in enumerate(sp)}, vectorize=cfg["vectorize"])
            okbase = all(np.max(np.abs(np.asarray(base[f"v{i}"], dtype=float) - traj[p])) <= 1e-8 * scale
                         for i, p in enumerate(sp))
        except HarnessError:
            raise
        except Exception as e:
            # does the model translate at all (no output request involved)?  If it does, it is the look-up of the
            # requested paths that failed
            try:
                from ..model import compile_vf
                compile_vf(spec, vectorize=cfg["vectorize"])
            except HarnessError:
                raise
            except Exception:
                res.rejected = f"model-does-not-run:{type(e).__name__}"
                return res
            res.violate(exc_bucket("request-raises:single-path", e),
                        f"get_run_func translates the model, but run() with one full path per output key raised: "
                        f"{short_exc(e)}; nodes {[p for p, _ in spec['nodes']]}")
            return res
        if not okbase:
            # (shapes of listed C01/C04 findings were excluded above; what is left is a wrong column under the most
            # basic request form: one full path per key)
            bad = [p for i, p in enumerate(sp) if np.max(np.abs(np.asarray(base[f"v{i}"], dtype=float) - traj[p])) > 1e-8 * scale]
            res.violate(f"wrong-trajectory:single-path:{'vec' if cfg['vectorize'] else 'novec'}",
                        f"outputs with one full path per key: column(s) of {bad[:3]} do not carry the trajectory of the "
                        f"variable they name")
            return res
        outs = dict(requests) if form == "dict" else list(requests)
        circuit, kw = None, {}
        if cfg.get("recompiled"):
            # the request is made on a CircuitTemplate instance that was compiled before (with the same or the other
            # vectorize setting): path resolution must not depend on what an earlier compilation left behind
            from .. import isolate
            from ..model import build_circuit
            isolate.reset()
            circuit = build_circuit(spec)
            first_vec = cfg["vectorize"] if cfg["recompiled"] == "same" else not cfg["vectorize"]
            kw["in_place"] = bool(cfg.get("in_place"))
            try:
                run_circuit(spec, steps * dt, dt, {f"v{i}": p for i, p in enumerate(sp)}, vectorize=first_vec,
                            circuit=circuit, **kw)
            except HarnessError:
                raise
            except Exception as e:
                res.rejected = f"first-compilation-raises:{type(e).__name__}"
                return res
            res.labels = sorted(set(res.labels) | {"recompiled:" + cfg["recompiled"] + (":in_place" if kw["in_place"] else "")})
        try:
            df = run_circuit(spec, steps * dt, dt, outs, vectorize=cfg["vectorize"], circuit=circuit, **kw)
        except HarnessError:
            raise
        except Exception as e:
            res.violate(exc_bucket(f"run-raises:{form}", e), f"outputs={outs}: {short_exc(e)}")
            return res
        seen = {k: [] for k in expected}
        for col in df.columns:
            vals = np.asarray(df[col], dtype=float)
            if vals.ndim != 1:
                res.violate("duplicate-column", f"column label {col!r} occurs more than once")
                return res
            if form == "dict":
                if isinstance(col, tuple):
                    key = col[0]
                    rest = [c for c in col[1:] if isinstance(c, str) and c != ""]
                    path = "/".join(rest)
                    if not rest:
                        # a single-node key padded to the number of levels of the wildcard keys
                        path = expected[key][0] if key in expected and len(expected[key]) == 1 else None
                else:
                    key = col
                    path = expected[key][0] if key in expected and len(expected[key]) == 1 else None
            else:
                if isinstance(col, tuple):
                    rest = [c for c in col if isinstance(c, str) and c != ""]
                    path = "/".join(rest)
                else:
                    path = col
                key = next((k for k, v in expected.items() if path in v and path not in seen[k]), None)
                if key is None:
                    key = next((k for k, v in expected.items() if path in v), None)
            if key not in expected or path is None or path not in expected[key]:
                res.violate(f"unexpected-column:{form}", f"column {col!r} does not name a variable addressed by the "
                                                         f"request {outs} (addressed: {expected})")
                return res
            if np.max(np.abs(vals - traj[path])) > 1e-8 * scale:
                others = [p for p in sp if np.max(np.abs(vals - traj[p])) <= 1e-8 * scale]
                res.violate(f"wrong-trajectory:{form}:{'vec' if cfg['vectorize'] else 'novec'}",
                            f"column {col!r} (request {outs}) does not carry the trajectory of {path}; it equals the "
                            f"trajectory of {others or 'no declared variable'}")
                return res
            seen[key].append(path)
        if form == "list":
            # list form: columns are named by full paths, so requests that address the same variable share one column
            union = sorted({p for v in expected.values() for p in v})
            got = sorted(p for v in seen.values() for p in v)
            if got != union:
                res.violate("column-set:list", f"requests {requests} address {union} but columns name {got}")
            else:
                res.info["columns_checked"] = res.info.get("columns_checked", 0) + len(df.columns)
            return res
        for key, exp in expected.items():
            if sorted(seen[key]) != sorted(exp):
                res.violate(f"column-set:{form}", f"request {key!r}: {requests[key] if form == 'dict' else key} addresses "
                                                  f"{exp} but columns name {seen[key]}")
                return res
        res.info["columns_checked"] = res.info.get("columns_checked", 0) + len(df.columns)
        return res

    def sample(self, case):
        return {"nodes": case["spec"]["nodes"], "request": case["req"], "cfg": case["cfg"]}


ARMS = [OutputsArm()]
