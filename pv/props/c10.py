"""C10 - delayed terms read the true past of the trajectory."""
import copy

import numpy as np
from hypothesis import strategies as st

from .. import gen
from ..arm import Arm
from ..common import CaseResult, HarnessError, exc_bucket, short_exc
from ..findings import excluded_by
from ..model import RefModel, compile_vf, run_circuit

PROPERTY = {
    "id": "C10",
    "rule": ("Hypothesis-generated models with 1-3 past(x,tau) / x(t-tau) terms on one or several state variables "
             "(literal and parameter delays, both notations) and delayed edges under an adaptive solver; arm func: the "
             "function from get_run_func is called with a hand-made smooth history (distinct polynomial+sinusoid per "
             "component) at random (t, y): every derivative must equal the reference vector field with each delayed term "
             "= component x of hist(t - tau) (t in time units: fixed-step functions receive the step counter and must "
             "query hist(t*dt - tau)), and the set of queried times must be {t - tau_k}; arm run: run(solver='euler') must "
             "equal the method-of-steps Euler recurrence with constant pre-history and piecewise-linear history, and "
             "run(solver='scipy') must converge to a fine-step reference. Non-trivial = >=2 (variable, delay) pairs or a "
             "delayed variable that is not at position 0; distinct = canonical JSON of the case."),
    "assumptions": [
        "only models whose delay-free skeleton agrees with the reference are judged (others: C01)",
        "scipy DDE runs are compared with a fine-step (dt/32) reference at 3e-2 relative tolerance (the implementation's "
        "dopri5 stepping with interpolated history is first-order accurate in the history)",
    ],
}
PROPERTY["rule"] += ' A third of the run cases are vectorised; a delay parameter may be overridden per node.'

DELAYS = [0.05, 0.1, 0.2, 0.35, 0.15]


def add_past_terms(draw, spec, mult_rate=8):
    spec = copy.deepcopy(spec)
    ops = sorted(o for nt in spec["ntypes"].values() for o in nt["ops"])
    n_terms = draw(st.integers(1, 3))
    pairs = []
    for _ in range(n_terms):
        o = ops[draw(st.integers(0, len(ops) - 1))]
        od = spec["ops"][o]
        states = [v[0] for v in od["vars"] if v[1] == "state"]
        des = [e for e in od["eqs"] if e[1]]
        x = states[draw(st.integers(0, len(states) - 1))]
        e = des[draw(st.integers(0, len(des) - 1))]
        tau = draw(st.sampled_from(DELAYS))
        form = draw(st.integers(0, 3))
        if form == 2:
            # delay as a parameter
            pname = next(n for n in ("tau_d", "tau_d0", "tau_d1", "tau_d2") if n not in {v[0] for v in od["vars"]})
            od["vars"].append([pname, "const", tau])
            term = ["past", x, ["var", pname]]
        elif form == 1:
            term = ["past", x, tau, "tform"]
        elif form == 3:
            term = ["past", x, tau, "tform_sci"]
        else:
            term = ["past", x, tau]
        c = draw(st.sampled_from([0.5, 1.0, 2.0, 0.3]))
        sign = draw(st.sampled_from(["+", "+", "+", "+", "+", "-"]))
        if draw(st.integers(0, mult_rate - 1)) == 0:
            # the delayed value multiplied with an instantaneous state variable
            term = ["bin", "*", term, ["var", states[draw(st.integers(0, len(states) - 1))]]]
        e[2] = ["bin", sign, e[2], ["bin", "*", ["num", c], term]]
        pairs.append((o, x, tau))
    return spec, pairs


def strip_past(ast):
    k = ast[0]
    if k == "past":
        return ["num", 0.0]
    if k in ("neg", "pow"):
        return [k, strip_past(ast[1])] + ast[2:]
    if k == "bin":
        return ["bin", ast[1], strip_past(ast[2]), strip_past(ast[3])]
    if k == "call":
        return ["call", ast[1]] + [strip_past(a) for a in ast[2:]]
    return ast


def skeleton(spec):
    s = copy.deepcopy(spec)
    for od in s["ops"].values():
        for e in od["eqs"]:
            e[2] = strip_past(e[2])
    for e in s["edges"]:
        e["d"] = None
    return s


class Hist:
    """smooth hand-made history: component j(t) = a_j + b_j t + c_j sin(w_j t + j)"""

    def __init__(self, n, seedvals):
        self.n = n
        self.p = seedvals
        self.queries = []

    def __call__(self, t):
        t = float(t)
        self.queries.append(t)
        j = np.arange(self.n)
        a, b, c, w = self.p
        return (a + 0.1 * j) + (b - 0.05 * j) * t + c * np.sin((w + 0.3 * j) * t + j)


def base_strategy(draw):
    spec = draw(gen.model_spec({"leak": True, "max_types": 2, "max_ops": 2, "max_nodes": 3, "max_edges": 3,
                                "depths": [0, 0, 1], "expr_depth": 2, "collision": False, "max_alg": 1,
                                "funcs": ["sin", "cos", "tanh", "sigmoid", "arctan"], "pow": False}))
    return gen.uniquify_init(spec)


class FuncArm(Arm):
    name = "func"
    budget = {"quick": 1000, "thorough": 10000}
    min_per_shard = 20
    required_labels = ("fixed", "adaptive", "param_delay", "t_notation", "delayed_var_not_first", "two_pairs",
                       "delayed_edge")

    def strategy(self, ctx):
        @st.composite
        def case(draw):
            adaptive = draw(st.booleans())
            dt_ = draw(st.sampled_from([0.01, 0.05]))
            base = base_strategy(draw)
            edge_mode = adaptive and bool(base["edges"]) and draw(st.booleans())
            if edge_mode:
                # delayed edges under an adaptive solver (PyRates turns them into past() terms); optionally no explicit
                # past() term at all
                spec, pairs = (add_past_terms(draw, base) if draw(st.booleans()) else (base, []))
                rmb = RefModel(skeleton(spec))
                cand = [e for e in spec["edges"]
                        if rmb.kind.get(((e.get("scope") + "/") if e.get("scope") else "") + e["s"]) == "state"]
                # any subset of the edges that leave state variables is delayed (at least one), so that undelayed edges
                # come before and after delayed ones of the same source variable
                forced = draw(st.integers(0, max(0, len(cand) - 1)))
                for k, e in enumerate(cand):
                    if k == forced or draw(st.booleans()):
                        # edge delays not larger than the (initial) step size are deliberately neglected by the
                        # implementation: stay clearly above it
                        e["d"] = draw(st.sampled_from([x for x in DELAYS if x > 2.01 * dt_]))
            else:
                spec, pairs = add_past_terms(draw, base)
            rm = RefModel(skeleton(spec))
            n = len(rm.state_paths)
            fl = st.floats(-1.5, 1.5, allow_nan=False).map(lambda v: round(v, 3))
            return {"spec": spec, "cfg": {"adaptive": adaptive, "dt": dt_,
                                          "vectorize": False},
                    "hist": [draw(fl), draw(fl), draw(fl), draw(st.sampled_from([1.0, 2.0, 3.5]))],
                    "ts": draw(st.lists(st.floats(0.0, 3.0, allow_nan=False).map(lambda v: round(v, 3)), min_size=3, max_size=3)),
                    "ys": draw(gen.probes_strategy(n, n=3))}
        from ..finding_predicates import repair_case
        return case().map(lambda c: repair_case(c, ctx))

    def run(self, case, ctx):
        from .. import expr as E
        res = CaseResult()
        ex = excluded_by("C10", case, ctx)
        if ex:
            res.excluded = ex
            return res
        spec, cfg = case["spec"], case["cfg"]
        rm = RefModel(spec)
        sp = rm.state_paths
        adaptive, dt = cfg["adaptive"], cfg["dt"]
        # (variable, delay) pairs
        pairs = set()
        notations = set()
        for p_, nt in spec["nodes"]:
            for o in spec["ntypes"][nt]["ops"]:
                od = spec["ops"][o]
                vals = {v[0]: v[2] for v in od["vars"]}
                for e in od["eqs"]:
                    for t_ in E.past_terms(e[2]):
                        d = t_[2]
                        dv = vals[d[1]] if isinstance(d, list) else d
                        pairs.add((f"{p_}/{o}/{t_[1]}", float(dv)))
                        notations.add("param_delay" if isinstance(d, list) else ("t_notation" if len(t_) > 3 else "past_notation"))
        delayed_edges = {}
        for i, e in enumerate(rm.edges):
            if e.get("d") is not None:
                pairs.add((e["s"], float(e["d"])))
                delayed_edges[i] = float(e["d"])
                notations.add("delayed_edge")
        if not pairs:
            res.rejected = "no delayed term drawn"
            return res
        lab = ["adaptive" if adaptive else "fixed"] + sorted(notations)
        if len(pairs) >= 2:
            lab.append("two_pairs")
        res.labels = lab
        # skeleton must agree with the reference
        sk = skeleton(spec)
        rmk = RefModel(sk)
        try:
            ck = compile_vf(sk, vectorize=False, step_size=dt, adaptive=adaptive)
            yk = np.zeros(ck.n)
            posk = ck.positions()
            for k_, v in zip(sp, case["ys"][0]):
                yk[posk[k_][0]] = v
            gk = ck.call(0.0, yk)
            rk = rmk.vf(dict(zip(sp, case["ys"][0])))
            if any(abs(gk[posk[k_][0]] - rk[k_][0]) > 1e-9 * rk[k_][1] + 1e-12 for k_ in sp):
                res.rejected = "delay-free skeleton deviates from reference (C01)"
                return res
        except HarnessError:
            raise
        except Exception as e:
            res.rejected = f"skeleton-raises:{type(e).__name__}"
            return res
        try:
            c = compile_vf(spec, vectorize=False, step_size=dt, adaptive=adaptive)
        except HarnessError:
            raise
        except Exception as e:
            res.violate(exc_bucket("compile-raises", e), f"model with past terms {sorted(pairs)}: {short_exc(e)}")
            return res
        # (a function without hist argument is judged by its values below: a delayed term that does not influence any
        #  derivative may legitimately be dropped)
        pos = c.positions()
        if set(pos) != set(sp):
            res.rejected = "layout differs (C01)"
            return res
        if any(pos[p][0] != 0 for p, _ in pairs):
            res.labels.append("delayed_var_not_first")
        res.nontrivial = len(pairs) >= 2 or any(pos[p][0] != 0 for p, _ in pairs)
        for tt, yvals in zip(case["ts"], case["ys"]):
            H = Hist(c.n, case["hist"])
            t_arg = int(round(tt / dt)) if not adaptive else tt
            t_time = t_arg * dt if not adaptive else tt

            def hist_ref(path, delay):
                return float(Hist(c.n, case["hist"])(t_time - delay)[pos[path][0]])
            def edge_src(ei, value, t_time=t_time):
                if ei in delayed_edges:
                    v = hist_ref(rm.edges[ei]["s"], delayed_edges[ei])
                    return (v, abs(v))
                return value(rm.edges[ei]["s"])
            ref = rm.vf(dict(zip(sp, yvals)), t=t_time, hist=hist_ref, edge_src=edge_src)
            yv = np.zeros(c.n)
            for k_, v in zip(sp, yvals):
                yv[pos[k_][0]] = v
            try:
                got = c.call(t_arg, yv, hist=H)
            except Exception as e:
                res.violate(exc_bucket("call-raises", e), f"{short_exc(e)}")
                return res
            want_q = sorted({round(t_time - d, 9) for _, d in pairs})
            got_q = sorted({round(q, 9) for q in H.queries})
            if not set(got_q) <= set(want_q):
                res.violate(f"query-times:{'adaptive' if adaptive else 'fixed'}",
                            f"hist queried at {got_q}, expected t - tau_k = {want_q} (t={t_time}, dt={dt}, "
                            f"function argument t={t_arg})")
                return res
            for k_ in sp:
                rv, mag = ref[k_]
                if not abs(got[pos[k_][0]] - rv) <= 1e-9 * mag + 1e-11:
                    res.violate(f"wrong-delayed-value:{'adaptive' if adaptive else 'fixed'}",
                                f"d/dt {k_} at t={t_time}: generated {got[pos[k_][0]]!r}, reference {rv!r}; pairs "
                                f"{sorted(pairs)}, positions {pos}")
                    return res
        # ---- delays given as operator parameters are function arguments: the look-up follows the value passed at call time
        pdel = {}
        for p_, nt in spec["nodes"]:
            for o in spec["ntypes"][nt]["ops"]:
                od = spec["ops"][o]
                vals = {v[0]: v[2] for v in od["vars"]}
                for e in od["eqs"]:
                    for t_ in E.past_terms(e[2]):
                        if isinstance(t_[2], list):
                            pdel[f"{p_}/{o}/{t_[2][1]}"] = float(vals[t_[2][1]])
        pdel = {k_: v for k_, v in pdel.items() if k_ in c.names}
        if pdel:
            res.labels.append("param_delay_changed_at_call")
            ov = {k_: round(v * 1.37 + 0.013, 6) for k_, v in pdel.items()}
            tt, yvals = case["ts"][0], case["ys"][0]
            t_arg = int(round(tt / dt)) if not adaptive else tt
            t_time = t_arg * dt if not adaptive else tt

            def hist_ref2(path, delay):
                return float(Hist(c.n, case["hist"])(t_time - delay)[pos[path][0]])

            def edge_src2(ei, value):
                if ei in delayed_edges:
                    v = hist_ref2(rm.edges[ei]["s"], delayed_edges[ei])
                    return (v, abs(v))
                return value(rm.edges[ei]["s"])
            ref = rm.vf(dict(zip(sp, yvals)), params=ov, t=t_time, hist=hist_ref2, edge_src=edge_src2)
            yv = np.zeros(c.n)
            for k_, v in zip(sp, yvals):
                yv[pos[k_][0]] = v
            try:
                got = c.call(t_arg, yv, ov, hist=Hist(c.n, case["hist"]))
            except Exception as e:
                res.violate(exc_bucket("call-raises:changed-delay", e), f"{short_exc(e)}")
                return res
            for k_ in sp:
                rv, mag = ref[k_]
                if not abs(got[pos[k_][0]] - rv) <= 1e-9 * mag + 1e-11:
                    res.violate(f"delay-argument-ignored:{'adaptive' if adaptive else 'fixed'}",
                                f"d/dt {k_} at t={t_time} with delay arguments {ov} (declared {pdel}): generated "
                                f"{got[pos[k_][0]]!r}, reference {rv!r}")
                    return res
        return res

    def valid(self, case):
        """reducer guard: the model must keep at least one delayed term on a declared state variable"""
        from .. import expr as E
        spec = case["spec"]
        n = 0
        for nt in spec["ntypes"].values():
            for o in nt["ops"]:
                od = spec["ops"][o]
                states = {v[0] for v in od["vars"] if v[1] == "state"}
                declared = {v[0] for v in od["vars"]}
                for e in od["eqs"]:
                    for t_ in E.past_terms(e[2]):
                        if t_[1] not in states:
                            return False
                        if isinstance(t_[2], list) and t_[2][1] not in declared:
                            return False
                        n += 1
        n += sum(1 for e in spec.get("edges", []) if e.get("d") is not None)
        return n >= 1

    def sample(self, case):
        from ..model import render_eq
        spec = case["spec"]
        return {"ops": {o: [render_eq(*e) for e in od["eqs"]] for o, od in spec["ops"].items()},
                "nodes": spec["nodes"], "cfg": case["cfg"], "ts": case.get("ts")}


def euler_mos(rm, steps, dt):
    """method-of-steps Euler: history = constant y0 before 0, piecewise-linear through the stored iterates"""
    sp = rm.state_paths
    y = rm.y0()
    ts = [0.0]
    ys = [dict(y)]
    rec = [[y[p] for p in sp]]

    for k in range(steps):
        t = k * dt

        def hist(path, delay, t=t):
            tq = t - delay
            if tq <= ts[0]:
                return ys[0][path]
            if tq >= ts[-1]:
                return ys[-1][path]
            # locate
            i = int(np.floor(tq / dt + 1e-12))
            i = min(max(i, 0), len(ts) - 2)
            while ts[i + 1] < tq:
                i += 1
            while ts[i] > tq:
                i -= 1
            a = (tq - ts[i]) / (ts[i + 1] - ts[i])
            return ys[i][path] + a * (ys[i + 1][path] - ys[i][path])
        f = rm.vf(y, t=t, hist=hist)
        y = {p: y[p] + dt * f[p][0] for p in sp}
        ts.append((k + 1) * dt)
        ys.append(dict(y))
        rec.append([y[p] for p in sp])
    return np.array(rec)


class RunArm(Arm):
    name = "run"
    budget = {"quick": 400, "thorough": 4000}
    min_per_shard = 10
    case_timeout = 120
    required_labels = ("euler", "scipy", "delay_not_multiple_of_dt", "coarse_sampling", "backend:torch:scipy", "backend:jax:scipy",
                       "vectorized", "vectorized_per_node_delay")

    def strategy(self, ctx):
        @st.composite
        def case(draw):
            spec, pairs = add_past_terms(draw, base_strategy(draw))
            # a delay that is a parameter may differ between the nodes that share the operator (per-node override)
            for o, od in sorted(spec["ops"].items()):
                for v in od["vars"]:
                    if v[0].startswith("tau_d") and v[1] == "const":
                        users = sorted(nt for nt, d in spec["ntypes"].items() if o in d["ops"])
                        if len(users) >= 2 and draw(st.booleans()):
                            nt = users[draw(st.integers(0, len(users) - 1))]
                            other = draw(st.sampled_from([t_ for t_ in DELAYS if t_ != v[2]]))
                            spec["ntypes"][nt].setdefault("ov", {}).setdefault(o, {})[v[0]] = other
            return {"spec": spec, "cfg": {"solver": draw(st.sampled_from(["euler", "euler", "scipy"])),
                                          "dt": draw(st.sampled_from([0.01, 0.02, 0.03])),
                                          "steps": draw(st.integers(20, 60)), "vectorize": draw(st.sampled_from([False, False, True])),
                                          "coarse": draw(st.sampled_from([8, 10, 15])),
                                          # one case in five runs on another backend's implementation of the solver
                                          "backend": draw(st.sampled_from(["default"] * 8 + ["torch", "jax"]))}}
        from ..finding_predicates import repair_case
        return case().map(lambda c: repair_case(c, ctx))

    def run(self, case, ctx):
        from .. import expr as E
        res = CaseResult()
        ex = excluded_by("C10", case, ctx)
        if ex:
            res.excluded = ex
            return res
        spec, cfg = case["spec"], case["cfg"]
        rm = RefModel(spec)
        sp = rm.state_paths
        dt, steps, solver = cfg["dt"], cfg["steps"], cfg["solver"]
        T = steps * dt
        delays = []
        for od in spec["ops"].values():
            vals = {v[0]: v[2] for v in od["vars"]}
            for e in od["eqs"]:
                for t_ in E.past_terms(e[2]):
                    d = t_[2]
                    delays.append(float(vals[d[1]] if isinstance(d, list) else d))
        lab = [solver]
        if any(abs(d / dt - round(d / dt)) > 1e-6 for d in delays):
            lab.append("delay_not_multiple_of_dt")
        if cfg.get("vectorize"):
            lab.append("vectorized")
            if any(str(k).startswith("tau_d") for nt in spec["ntypes"].values() for ov in (nt.get("ov") or {}).values() for k in ov):
                lab.append("vectorized_per_node_delay")
        res.labels = lab
        res.nontrivial = len(set(delays)) >= 2 or len(delays) >= 2
        outputs = {f"v{i}": p for i, p in enumerate(sp)}
        sk = skeleton(spec)
        rmk = RefModel(sk)
        ref0 = rmk.simulate(steps, dt)[:steps]
        if not np.all(np.isfinite(ref0)) or np.max(np.abs(ref0)) > 1e6:
            res.rejected = "reference not benign"
            return res
        try:
            df0 = run_circuit(sk, T, dt, dict(outputs), vectorize=bool(cfg.get("vectorize")))
            a0 = np.column_stack([np.asarray(df0[f"v{i}"], dtype=float) for i in range(len(sp))])
        except HarnessError:
            raise
        except Exception as e:
            res.rejected = f"skeleton-raises:{type(e).__name__}"
            return res
        if a0.shape != ref0.shape or np.max(np.abs(a0 - ref0)) > 1e-8 * (1 + np.max(np.abs(ref0))):
            res.rejected = "delay-free skeleton deviates from reference (C01)"
            return res
        if solver == "euler":
            ref = euler_mos(rm, steps, dt)[:steps]
            kw, tol = {}, 1e-8
        else:
            fine = 8
            ref = euler_mos(rm, steps * fine * 4, dt / (fine * 4))[::fine * 4][:steps]
            ref_b = euler_mos(rm, steps * fine * 2, dt / (fine * 2))[::fine * 2][:steps]
            kw, tol = dict(rtol=1e-7, atol=1e-9), 3e-2
            with np.errstate(all="ignore"):
                if not np.all(np.isfinite(ref_b)) or np.max(np.abs(ref - ref_b) / (1.0 + np.abs(ref))) > tol / 4:
                    res.rejected = "fine-step reference not converged (sensitive dynamics)"
                    return res
        if not np.all(np.isfinite(ref)) or np.max(np.abs(ref)) > 1e6:
            res.rejected = "reference not benign"
            return res
        be = cfg.get("backend", "default")
        if be != "default":
            kw = dict(kw, backend=be)
            res.labels.append(f"backend:{be}:{solver}")
        try:
            df = run_circuit(spec, T, dt, dict(outputs), vectorize=bool(cfg.get("vectorize")), solver=solver, **kw)
            a = np.column_stack([np.asarray(df[f"v{i}"], dtype=float) for i in range(len(sp))])
        except HarnessError:
            raise
        except Exception as e:
            if be != "default" and solver == "euler":
                # a backend whose fixed-step solver cannot keep a history may refuse delayed models (it must not
                # return numbers then): the property speaks about the combinations that accept them
                res.rejected = f"{be} refuses delayed models under {solver}: {type(e).__name__}"
                return res
            res.violate(exc_bucket(f"run-raises:{solver}", e), f"delays {delays}: {short_exc(e)}")
            return res
        if a.shape != ref.shape:
            res.violate("shape", f"run returned {a.shape}, expected {ref.shape}")
            return res
        err = float(np.max(np.abs(a - ref) / (1.0 + np.abs(ref))))
        if solver == "scipy" and err <= tol:
            # the history the solver keeps is the computed trajectory itself (every accepted step), so what run returns at
            # a time point does not depend on how coarsely the output is sampled - also when the sampling step is as
            # large as the delays (unchanged tree: <= 4.3e-3 over the quick budget, because the integrator is restarted
            # at every output time; a history that only knows the output grid gives 1e-2 .. 3e-1)
            m = int(cfg.get("coarse", 10))
            if steps >= 2 * m:
                try:
                    dfc = run_circuit(spec, T, dt, dict(outputs), vectorize=bool(cfg.get("vectorize")), solver=solver, dts=m * dt, **kw)
                    ac = np.column_stack([np.asarray(dfc[f"v{i}"], dtype=float) for i in range(len(sp))])
                except HarnessError:
                    raise
                except Exception as e:
                    res.violate(exc_bucket(f"run-raises:{solver}:coarse-sampling", e), f"delays {delays}: {short_exc(e)}")
                    return res
                res.labels.append("coarse_sampling")
                n = min(len(ac), len(a[::m]))
                dev = float(np.max(np.abs(ac[:n] - a[::m][:n]) / (1.0 + np.abs(a[::m][:n])))) if n else 0.0
                import os as _os
                if _os.environ.get("PV_C10_DEVLOG"):
                    with open(_os.environ["PV_C10_DEVLOG"], "a") as fh:
                        fh.write(f"{dev:.3e} {m} {dt} {delays}\n")
                if dev > 1.2e-2:
                    res.violate("scipy-result-depends-on-sampling-step",
                                f"run(solver='scipy') with sampling_step_size={m}*dt deviates by {dev:.3g} (rel.) from the run "
                                f"with sampling_step_size=dt at the common time points; delays {delays}, dt={dt}")
                    return res
        if err > tol:
            j = int(np.argmax(np.max(np.abs(a - ref), axis=0)))
            res.violate(f"wrong-trajectory:{solver}", f"{sp[j]}: max rel. deviation {err:.3g} from the "
                                                      f"{'method-of-steps Euler recurrence' if solver == 'euler' else 'fine-step reference'}"
                                                      f"; delays {delays}, dt={dt}")
        return res

    sample = FuncArm.sample
    valid = FuncArm.valid


ARMS = [FuncArm(), RunArm()]
