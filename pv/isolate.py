"""Reset every piece of process-global state PyRates keeps, so that a generated case is a pure function of its JSON."""
import glob
import os
import sys

_notes = set()


def reset(remove_files=True):
    try:
        from pyrates.frontend.template import template_cache
        template_cache.clear()
    except Exception as e:  # pragma: no cover
        _notes.add(f"template_cache: {e!r}")
    try:
        from pyrates.frontend.template.operator import OperatorTemplate
        OperatorTemplate.cache.clear()
    except Exception as e:  # pragma: no cover
        _notes.add(f"OperatorTemplate.cache: {e!r}")
    try:
        import pyrates.ir.node as irn
        for nm in ("node_cache", "op_cache", "node_labels"):
            getattr(irn, nm).clear()
    except Exception as e:  # pragma: no cover
        _notes.add(f"ir.node caches: {e!r}")
    try:
        import pyrates.ir.circuit as irc
        for nm in ("in_edge_indices", "in_edge_vars"):
            getattr(irc, nm).clear()
    except Exception as e:  # pragma: no cover
        _notes.add(f"ir.circuit caches: {e!r}")
    try:
        import pyrates.frontend.template.circuit as ftc
        ftc.input_labels.clear()
    except Exception as e:  # pragma: no cover
        _notes.add(f"input_labels: {e!r}")
    try:
        import pyrates.backend.base.base_backend as bb
        bb._compiled_module_cache.clear()
    except Exception as e:  # pragma: no cover
        _notes.add(f"_compiled_module_cache: {e!r}")
    try:
        import pyrates.backend.parser as pp
        if hasattr(pp, "_sympify_cache"):
            c = pp._sympify_cache
            if hasattr(c, "clear"):
                c.clear()
            elif hasattr(pp, "_cached_sympify") and hasattr(pp._cached_sympify, "cache_clear"):
                pp._cached_sympify.cache_clear()
        if hasattr(pp.ExpressionParser, "_constant_counter"):
            pp.ExpressionParser._constant_counter = 0
    except Exception as e:  # pragma: no cover
        _notes.add(f"parser caches: {e!r}")
    for nm in list(sys.modules):
        if nm.startswith("pyrates_run") or nm.startswith("pyrates_func") or nm.startswith("pv_gen_"):
            sys.modules.pop(nm, None)
    if remove_files:
        for pat in ("pyrates_run*", "pyrates_func*", "pv_gen_*", "pvauto_*", "*.f90", "*.mod", "c.*", "*.so"):
            for f in glob.glob(pat):
                try:
                    if os.path.isdir(f):
                        import shutil
                        shutil.rmtree(f, ignore_errors=True)
                    else:
                        os.remove(f)
                except OSError:
                    pass
    import importlib
    importlib.invalidate_caches()


def notes():
    return sorted(_notes)
