"""Shared plumbing: case results, buckets, canonical hashing, JSON helpers."""
import hashlib
import json
import math
import os
import traceback

import numpy as np

VERIF_ROOT = os.path.dirname(os.path.dirname(os.path.abspath(__file__)))
REPO_ROOT = os.environ.get("PV_REPO", "/repo")


class HarnessError(Exception):
    """My own machinery failed (never a violation): exit code 2."""


class Reject(Exception):
    """The case is outside the property's domain (PyRates refused it, numerics discarded ...)."""

    def __init__(self, why):
        super().__init__(why)
        self.why = why


def jsonable(o):
    """Convert numpy scalars/arrays and tuples so that json.dumps works and is canonical."""
    if isinstance(o, dict):
        return {str(k): jsonable(v) for k, v in o.items()}
    if isinstance(o, (list, tuple)):
        return [jsonable(v) for v in o]
    if isinstance(o, np.ndarray):
        return jsonable(o.tolist())
    if isinstance(o, (np.integer,)):
        return int(o)
    if isinstance(o, (np.floating,)):
        return float(o)
    if isinstance(o, (np.bool_,)):
        return bool(o)
    if isinstance(o, complex):
        return {"re": o.real, "im": o.imag}
    return o


def canon(case) -> str:
    return json.dumps(jsonable(case), sort_keys=True, separators=(",", ":"), allow_nan=True)


def case_hash(case) -> str:
    return hashlib.sha1(canon(case).encode()).hexdigest()[:16]


class CaseResult:
    """Outcome of running one generated case against PyRates.

    violations: list of {"bucket": str, "msg": str}
    nontrivial: by the property's stated rule
    labels:     feature tags (for the measured generator distribution)
    rejected:   reason string if the case was outside the domain / refused, else None
    excluded:   id of the known finding whose predicate matched (case skipped), else None
    """

    __slots__ = ("violations", "nontrivial", "labels", "rejected", "excluded", "info")

    def __init__(self):
        self.violations = []
        self.nontrivial = False
        self.labels = []
        self.rejected = None
        self.excluded = None
        self.info = {}

    def violate(self, bucket, msg):
        self.violations.append({"bucket": str(bucket), "msg": str(msg)[:2000]})

    def to_json(self):
        return {"violations": self.violations, "nontrivial": self.nontrivial, "labels": self.labels,
                "rejected": self.rejected, "excluded": self.excluded, "info": jsonable(self.info)}


def pyrates_frame(exc: BaseException) -> str:
    """Innermost traceback frame that lies inside the pyrates package (file:function)."""
    tb = traceback.extract_tb(exc.__traceback__)
    inner = None
    for fr in tb:
        fn = fr.filename.replace("\\", "/")
        if "/pyrates/" in fn and "/verif/" not in fn:
            inner = f"{fn.split('/pyrates/', 1)[1]}:{fr.name}"
    if inner is None and tb:
        fr = tb[-1]
        inner = f"{os.path.basename(fr.filename)}:{fr.name}"
    return inner or "?"


def exc_bucket(kind: str, exc: BaseException) -> str:
    return f"{kind}:{type(exc).__name__}@{pyrates_frame(exc)}"


def short_exc(exc: BaseException) -> str:
    return f"{type(exc).__name__}: {str(exc)[:300]}"


def close(a, b, rtol, atol, mag=None):
    """|a-b| <= rtol*mag + atol elementwise (mag defaults to max(|a|,|b|)). NaN/inf never close unless equal."""
    a = np.asarray(a, dtype=float)
    b = np.asarray(b, dtype=float)
    if a.shape != b.shape:
        try:
            a, b = np.broadcast_arrays(a, b)
        except ValueError:
            return False
    if mag is None:
        mag = np.maximum(np.abs(a), np.abs(b))
    with np.errstate(invalid="ignore"):
        ok = np.abs(a - b) <= rtol * np.asarray(mag, dtype=float) + atol
    fin = np.isfinite(a) & np.isfinite(b)
    ok = np.where(fin, ok, a == b)
    return bool(np.all(ok))


def maxdiff(a, b):
    a = np.asarray(a, dtype=float)
    b = np.asarray(b, dtype=float)
    try:
        return float(np.nanmax(np.abs(a - b))) if a.size else 0.0
    except Exception:
        return math.inf
