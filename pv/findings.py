"""Known-findings protocol (see DESIGN.md §5).

/verif/known_findings.json lists genuine defects that are recorded rather than repaired.  For each listed finding the
runner replays its committed reproducer; only if it still fails is the finding *active*: a KNOWN-FINDING line is printed
and the predicate registered here keeps the generators from spending the budget on (and re-reporting) that shape.
Every excluded case is counted in the evidence.  The file is never written at run time.
"""

PREDICATES = {}


def predicate(fid):
    def deco(fn):
        PREDICATES[fid] = fn
        return fn
    return deco


def excluded_by(prop, case, ctx):
    for fid in sorted(ctx.active_findings):
        fn = PREDICATES.get(fid)
        if fn is None:
            continue
        try:
            if fn(case):
                return fid
        except Exception:
            continue
    return None


from . import finding_predicates  # noqa: E402,F401  (registers the predicates)
