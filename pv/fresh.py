"""Fresh-interpreter reference for C13: reads {"spec":..., "ops":[...]} from stdin, executes the operations on freshly
built templates in this (new) Python process and prints the observed results as JSON.  Used as a subprocess only."""
import json
import os
import sys
import tempfile


def main():
    doc = json.load(sys.stdin)
    d = tempfile.mkdtemp(prefix="pvfresh_")
    os.chdir(d)
    sys.path.insert(0, d)
    try:
        from pv.props.c13 import ModelRunner
        r = ModelRunner(doc["spec"], doc.get("shared_with"))
        out = []
        for op in doc["ops"]:
            out.append(r.do(op))
        sys.stdout.write("\n@@RESULT@@" + json.dumps(out))
    finally:
        os.chdir("/")
        import shutil
        shutil.rmtree(d, ignore_errors=True)


if __name__ == "__main__":
    main()
