#!/usr/bin/env python3
"""Records results of later runs of the (strengthened) checks against seeded changes in seeded/<ID>-<k>/meta.json.
The first verification (tools/seed_verify.sh) stays in `first_run`; `checks_on_patched_tree` holds the current state."""
import json, os, sys
HERE = os.path.dirname(os.path.dirname(os.path.abspath(__file__)))
UPD = {
 "C02-3": ({"C02": 1, "C13": 1}, "missed at first; C02 now compiles the other precision of the same backend in between, C13 draws a float precision per operation"),
 "C02-4": ({"C02": 0}, "not detected: the change only affects interp() called by a user on a non-uniform grid; interp is not part of the documented equation language and the grids of extrinsic inputs (the listed use) are uniform - no listed property quantifies over it"),
 "C03-4": ({"C03": 1}, "missed at first; C03's convergence arm now contains relaxation oscillators (step rejections) with a bound tied to what the same scipy method achieves on the reference vector field"),
 "C04-4": ({"C04": 1, "C11": 1}, "missed at first; C04's indexed_edges arm now draws discrete and gamma delays (C11 catches it through the regression replay of F-11c)"),
 "C05-3": ({"C05": 0}, "patch ported by hand (the fix of F-05c rewrote get_func): mutants/seed_C05-3_ported_lambdify_cache.diff; demonstration 0/1, suite passes. Not detected: needs two operations in one process that store the same node expression with different argument order (specific variable names and term lengths) on the direct-evaluation path only"),
 "C05-4": ({"C05": 0, "C13": 1}, "history dependent (an earlier compilation with another function table): caught by C13"),
 "C06-3": ({"C06": 1, "C04": 1}, "missed at first; C06 now also makes the request on an instance that was compiled before, C04 compiles both settings on one instance"),
 "C06-4": ({"C06": 1, "C01": 1}, "missed at first; operator names that are prefixes of one another are generated (op0, op0_b) and C06 judges the basic request form itself"),
 "C08-4": ({"C08": 1, "C02": 1}, "missed at first; C08's fixed arm now runs jax/torch and sampling steps that are multiples of the step"),
 "C11-3": ({"C11": 1}, "missed at first; C11 got the structured arm (many identical sources in drawn order)"),
 "C11-4": ({"C11": 1}, "missed at first; C11 draws kernels with more stages than the delay has steps"),
 "C12-4": ({"C12": 1}, "missed at first; the dde arm draws sparse=True"),
 "C13-3": ({"C13": 1}, "missed at first; C13 has a failed_compile operation"),
 "C13-4": ({"C13": 1}, "first run: harness exit 2 (the violation depended on Fortran modules of earlier histories in the worker); histories now use their own file names and the sweep arm varies the equations for Fortran"),
 "C14-3": ({"C14": 1}, "missed at first; edge operators with a second, named input (string-valued edge attributes) are generated"),
 "C14-4": ({"C14": 1}, "missed at first; C14 has the copy_then_update operation"),
 "C15-3": ({"C15": 1}, "missed at first; C15 writes the model into two YAML files that refer to one another, with decoy templates"),
 "C16-4": ({"C16": 1}, "missed at first; the judged run may follow an earlier (in-place) translation of the same objects"),
 "C16-1": ({"C16": 1}, "missed in the first session (two Connectivity objects with coupling edges into one target failed on the clean tree: findings F-16b/F-16h); caught since those were repaired and dynamic (ODE-bearing) coupling edges are generated"),
 "C17-3": ({"C17": 1}, "missed at first; C17 draws a second key (delay) on an edge that is already swept"),
 "C17-4": ({"C17": 1}, "missed at first; C17 draws hierarchical templates and wildcard input keys"),
 "C19-3": ({"C19": 1}, "missed at first; answers returned earlier are held and re-checked"),
 # ---- round 3 (seeds -5 / -6, written against the tree with the repairs of the second session) ----
 "C10-5": ({"C10": 1}, "missed at first; C10 writes delays of the x(t-tau) notation in scientific notation as well (tform_sci)"),
 "C10-6": ({"C10": 1, "C09": 1, "C04": 1}, "missed at first; C10 delays subsets of the edges of one source (an undelayed edge before a delayed one)"),
 "C16-5": ({"C16": 1}, "missed at first; C16 draws connections of one source variable with near-equal delays (same number of steps) and a shared spread"),
 "C18-5": ({"C18": 1}, "missed at first; C18 declares parameters that only occur in boundary/integral conditions"),
 "C11-5": ({"C11": 0, "C16": 1}, "not seen by C11's own arms (they use scalar edges); caught by C16, which owns the Connectivity forms of delay+spread (two connections of one population variable with different kernels)"),
 "C11-6": ({"C11": 1}, "missed at first: dde_approx was not drawn at all; C11's gamma arm now draws dde_approx in {0,3,5} (this also exposed the genuine defects F-11e and F-11f)"),
 "C13-5": ({"C13": 1}, "missed at first; the first two models of a C13 history may be built from the very same template objects"),
 "C13-6": ({"C13": 1}, "missed at first; the sweep arm has an int_spelling variant (k: 2 in the first model, k: 2.0 and a non-integer update in the second)"),
 "C15-6": ({"C15": 1}, "missed at first; C15 has a write-load-write-load variant on one file in four path notations (plain, ./, dotted directory, dotted)"),
 "C14-6": ({"C14": 0, "C13": 1}, "the operator cache is process-global state, which C14 resets before every operation by design (C14 judges what is kept on the template objects); caught by C13"),
 "C03-5": ({"C03": 0, "C10": 1}, "C03's models have no delays; delayed models under the fixed-step solvers are C10's run arm, which catches it (two distinct lags)"),
 "C12-6": ({"C12": 1}, "missed at first; C12 draws the names sympy uses for cse temporaries (x0, x1, ...) for parameters and states"),
 
 "C01-6": ({"C01": 1, "C04": 1}, "missed at first by C01 (caught by C04's cross_type arm); C01 has the vf_cross_type arm now (scalar source, ten and more merged targets through the indexed edge path)"),
 "C04-5": ({"C04": 1, "C09": 1, "C10": 1}, "missed at first; C04's traj arm now delays subsets of the edges"),
 "C05-5": ({"C05": 0, "C01": 1}, "needs two operators with the same variable name next to a user variable named like the generated label: C05's arms compile single operators; caught by C01 (collision names)"),
 "C05-6": ({"C05": 1}, "missed at first; C05 has the special_names arm (a name with another meaning is refused or means the declared variable). The patch was re-based by hand after the repair F-05k touched the same list"),
 "C06-5": ({"C06": 0, "C08": 1}, "2-D extrinsic inputs through wildcard paths are C08's subject (fixed arm, interleaved node types); caught there"),
 "C06-6": ({"C06": 0, "C16": 1}, "missed at first by every check: add_edges_from_matrix was not exercised; C16 has the matrix_edges arm now"),
 "C09-5": ({"C09": 0, "C16": 1}, "missed at first; C16 passes spread=0 explicitly for some discrete delays of Connectivity objects"),
 "C09-6": ({"C09": 1}, "missed at first; C09 has the alg_chain arm (algebraic source that depends on an edge from an algebraic variable of a later node, delayed and undelayed targets)"),
 "C17-5": ({"C17": 1}, "missed at first; C17 draws three keys with permute_grid=True"),
 # ---- round 4 (seeds -7, ten properties, written against the tree with the repairs up to §12.9) ----
 "C19-7": ({"C19": 1}, "missed at first; the C19 machine has a rule that repeats the time of the previous query exactly (after updates in between)"),
 "C02-7": ({"C02": 1}, "missed at first; half of C02's fixed-step trajectory cases run the same model a second time in the process with twice the step size and the same numbers of steps (no cache reset in between)"),
 "C06-7": ({"C06": 1}, "missed at first; a quarter of C06's circuits give structurally different node templates the same template name"),
 "C07-7": ({"C07": 1}, "patch ported by hand (the repair F-07e touched the in-place branch of update_template; the agent's patch is kept as patch.orig.diff); caught"),
}
for k, (res, note) in UPD.items():
    p = os.path.join(HERE, "seeded", k, "meta.json")
    if os.path.exists(p):
        m = json.load(open(p))
    else:
        am = os.path.join(HERE, "seeded", k, "agent_meta.json")
        a = json.load(open(am)) if os.path.exists(am) else {}
        m = {"property": k.split("-")[0], "seed_index": int(k.split("-")[1]), "summary": a.get("summary"), "needs": a.get("needs"),
             "files": a.get("files"), "confirmed": {"demo_on_clean_tree_rc": 0, "demo_on_patched_tree_rc": 1,
                                                     "pinned_suite_on_patched_tree": "49 passed, 2 deselected (ported patch)"},
             "what_i_ran": "demo and pinned suite on a scratch copy of /repo with the ported patch", "checks_on_patched_tree": {}}
    m.setdefault("first_run", dict(m.get("checks_on_patched_tree") or {}))
    m["checks_on_patched_tree"] = res
    m["note"] = note
    m["later_runs"] = "tools/mutant_run.sh <patch> <ID> quick (scratch copy of the current /repo, removed afterwards)"
    json.dump(m, open(p, "w"), indent=1)
    print("updated", k)
