#!/bin/bash
# usage: tools/reduce.sh <ID> <replay.json> [out.json]   (greedy structural reducer, see pv/reduce.py)
HERE="$(cd "$(dirname "$0")/.." && pwd)"; cd "$HERE"
export PATH=/venv/bin:$PATH PYTHONHASHSEED=0 OMP_NUM_THREADS=1 PV_REPO="${PV_REPO:-/repo}"
export PYTHONPATH="$PV_REPO:$HERE:$HERE/.deps" PYTHONDONTWRITEBYTECODE=1
exec /venv/bin/python -m pv.reduce "$@"
