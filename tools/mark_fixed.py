#!/usr/bin/env python3
"""usage: tools/mark_fixed.py <fid> <commit> "<what failed>" [--keep-listed]
A listed finding was repaired by a 'fix:' commit in /repo: its entry leaves known_findings.json["findings"], its replays
become regression replays (replays/<prop>/fixed-<fid>.json, replayed on every run), one 'fixed:' line per property that
has a replay is added, and the reverse patch of the commit is stored as a mutant (mutants/revert_<commit>_<slug>.diff).
With --keep-listed the finding stays listed (a part of it was repaired): only the fixed line and the mutant are added."""
import json, os, re, subprocess, sys
HERE = os.path.dirname(os.path.dirname(os.path.abspath(__file__)))
fid, commit, what = sys.argv[1], sys.argv[2], sys.argv[3]
keep = "--keep-listed" in sys.argv
kfp = os.path.join(HERE, "known_findings.json")
kf = json.load(open(kfp))
entry = next((f for f in kf["findings"] if f["id"] == fid), None)
props = []
if entry and not keep:
    for p, rp in (entry.get("replays") or {}).items():
        src = os.path.join(HERE, rp)
        dst = os.path.join(os.path.dirname(src), f"fixed-{fid}.json")
        if os.path.exists(src):
            os.rename(src, dst)
        props.append(p)
    kf["findings"] = [f for f in kf["findings"] if f["id"] != fid]
elif entry:
    props = list((entry.get("replays") or {}).keys())[:1]
else:
    props = [a for a in sys.argv[4:] if re.match(r"C\d\d$", a)]
short = subprocess.run(["git", "-C", "/repo", "rev-parse", "--short=7", commit], capture_output=True, text=True).stdout.strip()
for p in props:
    line = f"fixed: property={p} {short} {fid} {what}"
    if line not in kf["fixed"]:
        kf["fixed"].append(line)
json.dump(kf, open(kfp, "w"), indent=1)
subj = subprocess.run(["git", "-C", "/repo", "log", "-1", "--format=%s", commit], capture_output=True, text=True).stdout.strip()
slug = re.sub(r"[^A-Za-z0-9]+", "_", subj.replace("fix: ", ""))[:50].strip("_")
out = os.path.join(HERE, "mutants", f"revert_{short}_{slug}.diff")
if not os.path.exists(out):
    d = subprocess.run(["git", "-C", "/repo", "diff", commit, commit + "^"], capture_output=True, text=True).stdout
    open(out, "w").write(d)
print("fixed", fid, short, props)
