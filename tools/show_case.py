#!/usr/bin/env python3
"""Pretty-print a replay file (model equations, nodes, edges)."""
import json, sys
sys.path[:0] = ['/verif', '/verif/.deps']
from pv.model import render_eq
d = json.load(open(sys.argv[1]))
print("bucket:", d.get("bucket")); print("msg:", d.get("msg"))
c = d["case"]; spec = c.get("spec")
if spec:
    for o, od in spec["ops"].items():
        print(o, "out=", od.get("out"), "vars=", [(v[0], v[1], v[2]) for v in od["vars"]])
        for e in od["eqs"]: print("    ", render_eq(*e))
    for n, nt in spec["ntypes"].items(): print("ntype", n, nt)
    print("nodes", spec["nodes"])
    for e in spec.get("edges", []): print("edge", e)
    for k, v in (spec.get("etypes") or {}).items(): print("etype", k, v)
print({k: v for k, v in c.items() if k not in ("spec", "probes", "pprobes")})
