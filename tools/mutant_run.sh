#!/bin/bash
# usage: tools/mutant_run.sh <patch.diff> <ID> [tier] [extra check args]
# Copies /repo to a scratch dir outside /repo and /verif, applies the patch, runs ./check <ID> against the copy
# (PV_REPO) without touching the evidence file, removes the copy. Prints the check's exit code.
set -u
PATCH="$(readlink -f "$1")"; ID="$2"; TIER="${3:-quick}"; shift 3 2>/dev/null || shift $#
HERE="$(cd "$(dirname "$0")/.." && pwd)"
D="$(mktemp -d /tmp/pvmut_XXXXXX)"
rsync -a --exclude .git --exclude '*.so' --exclude build /repo/ "$D/"
if ! (cd "$D" && patch -p1 -s < "$PATCH"); then echo "PATCH-FAILED $PATCH"; rm -rf "$D"; exit 3; fi
PV_REPO="$D" "$HERE/check" "$ID" --tier "$TIER" --no-evidence "$@"
RC=$?
rm -rf "$D"
echo "MUTANT $(basename "$PATCH") on $ID -> exit $RC"
exit $RC
