#!/usr/bin/env python3
"""usage: tools/add_finding.py <fid> <prop[,prop..]> <found-replay.json> "<what>"
Copies a shrunk reproducer into replays/<prop>/<fid>.json and lists the finding in known_findings.json."""
import json, os, shutil, sys
HERE = os.path.dirname(os.path.dirname(os.path.abspath(__file__)))
fid, props, src, what = sys.argv[1], sys.argv[2].split(","), sys.argv[3], sys.argv[4]
kf_path = os.path.join(HERE, "known_findings.json")
kf = json.load(open(kf_path)) if os.path.exists(kf_path) else {"findings": [], "fixed": []}
doc = json.load(open(src))
entry = next((f for f in kf["findings"] if f["id"] == fid), None)
if entry is None:
    entry = {"id": fid, "properties": [], "what": what, "replays": {}}
    kf["findings"].append(entry)
entry["what"] = what
for p in props:
    d = os.path.join(HERE, "replays", p)
    os.makedirs(d, exist_ok=True)
    dst = os.path.join(d, f"{fid}.json")
    doc2 = dict(doc); doc2["property"] = p; doc2["finding"] = fid
    json.dump(doc2, open(dst, "w"), indent=1, sort_keys=True)
    if p not in entry["properties"]:
        entry["properties"].append(p)
    entry["replays"][p] = os.path.relpath(dst, HERE)
json.dump(kf, open(kf_path, "w"), indent=1)
print("listed", fid, "for", props)
