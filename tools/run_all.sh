#!/bin/bash
# usage: tools/run_all.sh <quick|thorough> [ids...]   -- runs the registered checks one after the other, prints one line each
HERE="$(cd "$(dirname "$0")/.." && pwd)"; cd "$HERE"
TIER="${1:-quick}"; shift
IDS="${*:-C19 C05 C15 C20 C01 C04 C06 C03 C08 C09 C11 C10 C12 C16 C17 C07 C14 C13 C18 C02}"
for p in $IDS; do
  t0=$(date +%s)
  ./check $p --tier $TIER > "/tmp/pv_all_${TIER}_$p.log" 2>&1; rc=$?
  t1=$(date +%s)
  echo "$p tier=$TIER rc=$rc wall=$((t1-t0))s :: $(grep -E '^\[C[0-9]+\] tier' /tmp/pv_all_${TIER}_$p.log | tail -1)"
  grep -E "VIOLATION|HARNESS|missing_required|bucket=" "/tmp/pv_all_${TIER}_$p.log" | head -5
done
