#!/bin/bash
# usage: tools/seed_verify.sh <ID> <k> [props-to-check...]
# Confirms a seeded change produced by a sub-agent in /tmp/seed/<ID>/SEED: demo passes on the clean tree, fails on the
# patched tree, the pinned suite still passes on the patched tree; then runs our quick check(s) against the patched copy.
# Writes /verif/seeded/<ID>-<k>/{patch.diff,demo.py,meta.json,verify.log}
set -u
ID="$1"; K="$2"; shift 2
PROPS="${*:-$ID}"
HERE="$(cd "$(dirname "$0")/.." && pwd)"
SRC="${SEED_ROOT:-/tmp/seed}/$ID/SEED"
DST="$HERE/seeded/$ID-$K"
mkdir -p "$DST"
[ -f "$SRC/patch$K.diff" ] && cp "$SRC/patch$K.diff" "$DST/patch.diff"
[ -f "$SRC/demo$K.py" ] && cp "$SRC/demo$K.py" "$DST/demo.py"
[ -f "$SRC/meta$K.json" ] && cp "$SRC/meta$K.json" "$DST/agent_meta.json"
LOG="$DST/verify.log"; : > "$LOG"
export PATH=/venv/bin:$PATH
CLEAN="$(mktemp -d /tmp/pvseedc_XXXXXX)"; PATCHED="$(mktemp -d /tmp/pvseedp_XXXXXX)"; RUN="$(mktemp -d /tmp/pvseedr_XXXXXX)"
rsync -a --exclude .git /repo/ "$CLEAN/"; rsync -a --exclude .git /repo/ "$PATCHED/"
(cd "$PATCHED" && patch -p1 -s < "$DST/patch.diff") || { echo "patch failed" | tee -a "$LOG"; rm -rf "$CLEAN" "$PATCHED" "$RUN"; exit 3; }
(cd "$RUN" && PYTHONPATH="$CLEAN" timeout 900 /venv/bin/python "$DST/demo.py" >> "$LOG" 2>&1); DC=$?
rm -rf "$RUN"/*
(cd "$RUN" && PYTHONPATH="$PATCHED" timeout 900 /venv/bin/python "$DST/demo.py" >> "$LOG" 2>&1); DP=$?
echo "demo_clean_rc=$DC demo_patched_rc=$DP" | tee -a "$LOG"
SUITE="skipped"
if [ "${SKIP_SUITE:-0}" != "1" ]; then
  (cd "$PATCHED" && PYTHONPATH="$PATCHED" /venv/bin/python -m pytest -q -p no:cacheprovider --timeout=900 tests --deselect tests/test_auto_emission.py -x 2>&1 | tail -3 >> "$LOG"); 
  SUITE="$(grep -E '^[0-9]+ passed|failed|error' "$LOG" | tail -1)"
fi
echo "suite: $SUITE" | tee -a "$LOG"
RES=""
for P in $PROPS; do
  PV_REPO="$PATCHED" "$HERE/check" "$P" --tier "${TIER:-quick}" --no-evidence >> "$LOG" 2>&1; RC=$?
  echo "check $P on patched -> exit $RC" | tee -a "$LOG"
  RES="$RES $P:$RC"
done
rm -rf "$CLEAN" "$PATCHED" "$RUN"
/venv/bin/python - "$DST" "$ID" "$K" "$DC" "$DP" "$SUITE" "$RES" <<'PY'
import json,sys,os
dst,pid,k,dc,dp,suite,res=sys.argv[1:8]
meta={}
p=os.path.join(dst,'agent_meta.json')
if os.path.exists(p):
    try: meta=json.load(open(p))
    except Exception: meta={}
out={"property":pid,"seed_index":int(k),"summary":meta.get("summary"),"needs":meta.get("needs"),"files":meta.get("files"),
     "confirmed":{"demo_on_clean_tree_rc":int(dc),"demo_on_patched_tree_rc":int(dp),"pinned_suite_on_patched_tree":suite},
     "what_i_ran":"tools/seed_verify.sh %s %s (scratch copies of /repo under /tmp, removed afterwards)"%(pid,k),
     "checks_on_patched_tree":{x.split(':')[0]:int(x.split(':')[1]) for x in res.split()}}
json.dump(out,open(os.path.join(dst,'meta.json'),'w'),indent=1)
if os.path.exists(p): os.remove(p)
PY
