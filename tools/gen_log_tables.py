#!/usr/bin/env python3
"""Regenerates the tables of DESIGN.md §12 between <!-- BEGIN:x --> / <!-- END:x --> markers from committed data:
known_findings.json (fixes, findings), mutants/RESULTS.tsv (mutation sweep), seeded/*/meta.json (seeded changes)."""
import glob, json, os, re, subprocess
HERE = os.path.dirname(os.path.dirname(os.path.abspath(__file__)))
kf = json.load(open(os.path.join(HERE, "known_findings.json")))


def fixes():
    rows = ["| finding | property | commit | what failed |", "|---|---|---|---|"]
    for l in kf["fixed"]:
        m = re.match(r"fixed: property=(C\d+) (\w+) (F-\w+) (.*)", l)
        if m:
            rows.append(f"| {m.group(3)} | {m.group(1)} | {m.group(2)} | {m.group(4)} |")
    return "\n".join(rows)


def findings():
    rows = ["| id | listed for | what fails (replay: replays/<prop>/<id>.json) |", "|---|---|---|"]
    for f in kf["findings"]:
        rows.append(f"| {f['id']} | {', '.join(f['properties'])} | {f['what']} |")
    return "\n".join(rows)


def mutants():
    p = os.path.join(HERE, "mutants", "RESULTS.tsv")
    if not os.path.exists(p):
        return "(mutation sweep not run yet)"
    np_ = os.path.join(HERE, "mutants", "NOTES.json")
    notes = json.load(open(np_)) if os.path.exists(np_) else {}
    rows = ["| mutant (mutants/…) | check | result | s | remark |", "|---|---|---|---|---|"]
    for l in open(p):
        b, prop, rc, sec = l.rstrip("\n").split("\t")
        res = {"1": "killed", "0": "SURVIVED", "2": "harness error", "3": "patch does not apply"}.get(rc, rc)
        rows.append(f"| {b[:-5]} | {prop} | {res} | {sec} | {notes.get(b, '')} |")
    return "\n".join(rows)


def seeds():
    rows = ["| seed | change (sub-agent's summary, shortened) | demo clean/patched | suite on patched tree | checks on the patched tree (exit code) |",
            "|---|---|---|---|---|"]
    for d in sorted(glob.glob(os.path.join(HERE, "seeded", "*"))):
        mp = os.path.join(d, "meta.json")
        if not os.path.exists(mp):
            continue
        m = json.load(open(mp))
        c = m.get("confirmed", {})
        chk = ", ".join(f"{k}: {'caught' if v == 1 else ('missed' if v == 0 else 'rc ' + str(v))}" for k, v in (m.get("checks_on_patched_tree") or {}).items())
        note = m.get("note", "")
        rows.append(f"| {os.path.basename(d)} | {(m.get('summary') or '')[:260].replace('|', '/')}… | {c.get('demo_on_clean_tree_rc')}/{c.get('demo_on_patched_tree_rc')} | "
                    f"{(c.get('pinned_suite_on_patched_tree') or '')[:24]} | {chk}{(' — ' + note) if note else ''} |")
    return "\n".join(rows)


def counts():
    commits = {re.match(r"fixed: property=C\d+ (\w+) ", l).group(1) for l in kf["fixed"]}
    man = json.load(open(os.path.join(HERE, "MANIFEST.json")))
    metas = [json.load(open(m)) for m in glob.glob(os.path.join(HERE, "seeded", "*", "meta.json"))]
    caught = sum(1 for m in metas if any(v == 1 for v in (m.get("checks_on_patched_tree") or {}).values()))
    neutral = sum(1 for m in metas if "behaviour-preserving" in (m.get("note") or ""))
    return (f"State at the end of the implementation phase: {len(man['checks'])} of 20 properties have a registered check "
            f"(`not_applicable`: {len(man['not_applicable'])}); {len(commits)} `fix:` commits in /repo repair {len({re.match(r'fixed: property=C[0-9]+ [0-9a-f]+ (F-[0-9a-z]+)', l).group(1) for l in kf['fixed']})} "
            f"genuine defects (the unedited suite passes after each); {len(kf['findings'])} genuine defects are listed as known "
            f"findings; {len(metas)} seeded changes were confirmed, of which {caught} are caught by at least one check and "
            f"{neutral} became behaviour-preserving through a later fix.")


def main():
    p = os.path.join(HERE, "DESIGN.md")
    s = open(p).read()
    for name, fn in (("counts", counts), ("fixes", fixes), ("findings", findings), ("mutants", mutants), ("seeds", seeds)):
        s = re.sub(rf"(<!-- BEGIN:{name} -->).*?(<!-- END:{name} -->)", lambda m: m.group(1) + "\n" + fn() + "\n" + m.group(2), s, flags=re.S)
    open(p, "w").write(s)


if __name__ == "__main__":
    main()
