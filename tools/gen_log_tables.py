#!/usr/bin/env python3
"""Regenerates the tables of DESIGN.md §12 between <!-- BEGIN:x --> / <!-- END:x --> markers from committed data:
known_findings.json (fixes, findings), mutants/RESULTS.tsv (mutation sweep), seeded/*/meta.json (seeded changes)."""
import glob, json, os, re, subprocess
HERE = os.path.dirname(os.path.dirname(os.path.abspath(__file__)))
kf = json.load(open(os.path.join(HERE, "known_findings.json")))


def fixes():
    rows = ["| finding | property | commit | what failed |", "|---|---|---|---|"]
    for l in kf["fixed"]:
        m = re.match(r"fixed: property=(C\d+) (\w+) (F-\w+) (.*)", l)
        if m:
            rows.append(f"| {m.group(3)} | {m.group(1)} | {m.group(2)} | {m.group(4)} |")
    return "\n".join(rows)


def findings():
    rows = ["| id | listed for | what fails (replay: replays/<prop>/<id>.json) |", "|---|---|---|"]
    for f in kf["findings"]:
        rows.append(f"| {f['id']} | {', '.join(f['properties'])} | {f['what']} |")
    return "\n".join(rows)


def mutants():
    p = os.path.join(HERE, "mutants", "RESULTS.tsv")
    if not os.path.exists(p):
        return "(mutation sweep not run yet)"
    rows = ["| mutant (mutants/…) | check | result | s |", "|---|---|---|---|"]
    for l in open(p):
        b, prop, rc, sec = l.rstrip("\n").split("\t")
        res = {"1": "killed", "0": "SURVIVED", "2": "harness error", "3": "patch does not apply"}.get(rc, rc)
        rows.append(f"| {b[:-5]} | {prop} | {res} | {sec} |")
    return "\n".join(rows)


def seeds():
    rows = ["| seed | change (sub-agent's summary, shortened) | demo clean/patched | suite on patched tree | checks on the patched tree (exit code) |",
            "|---|---|---|---|---|"]
    for d in sorted(glob.glob(os.path.join(HERE, "seeded", "*"))):
        mp = os.path.join(d, "meta.json")
        if not os.path.exists(mp):
            continue
        m = json.load(open(mp))
        c = m.get("confirmed", {})
        chk = ", ".join(f"{k}: {'caught' if v == 1 else ('missed' if v == 0 else 'rc ' + str(v))}" for k, v in (m.get("checks_on_patched_tree") or {}).items())
        note = m.get("note", "")
        rows.append(f"| {os.path.basename(d)} | {(m.get('summary') or '')[:260].replace('|', '/')}… | {c.get('demo_on_clean_tree_rc')}/{c.get('demo_on_patched_tree_rc')} | "
                    f"{(c.get('pinned_suite_on_patched_tree') or '')[:24]} | {chk}{(' — ' + note) if note else ''} |")
    return "\n".join(rows)


def main():
    p = os.path.join(HERE, "DESIGN.md")
    s = open(p).read()
    for name, fn in (("fixes", fixes), ("findings", findings), ("mutants", mutants), ("seeds", seeds)):
        s = re.sub(rf"(<!-- BEGIN:{name} -->).*?(<!-- END:{name} -->)", lambda m: m.group(1) + "\n" + fn() + "\n" + m.group(2), s, flags=re.S)
    open(p, "w").write(s)


if __name__ == "__main__":
    main()
