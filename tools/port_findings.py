#!/usr/bin/env python3
"""usage: tools/port_findings.py <FROM_PROP> <TO_PROP> <to_arm> '<json cfg update>' [fid ...]
For each listed finding that has a replay for FROM_PROP, convert the case (cfg.update) and test it with TO_PROP's arm in
a fresh process; when it violates there, store it as replays/<TO_PROP>/<fid>.json and list TO_PROP in the finding."""
import json, os, subprocess, sys, tempfile
HERE = os.path.dirname(os.path.dirname(os.path.abspath(__file__)))
src, dst, arm, upd = sys.argv[1], sys.argv[2], sys.argv[3], json.loads(sys.argv[4])
only = set(sys.argv[5:])
kf = json.load(open(os.path.join(HERE, "known_findings.json")))
for f in kf["findings"]:
    if only and f["id"] not in only:
        continue
    if src not in f.get("replays", {}) or dst in f.get("replays", {}):
        continue
    doc = json.load(open(os.path.join(HERE, f["replays"][src])))
    case = dict(doc["case"]); cfg = dict(case.get("cfg", {})); cfg.update(upd); case["cfg"] = cfg
    for k in upd.get("_drop", []):
        case.pop(k, None)
    cfg.pop("_drop", None)
    new = {"property": dst, "arm": arm, "case": case, "finding": f["id"], "ported_from": src}
    tmp = tempfile.NamedTemporaryFile("w", suffix=".json", delete=False); json.dump(new, tmp); tmp.close()
    p = subprocess.run([os.path.join(HERE, "check"), dst, "--replay", tmp.name], capture_output=True, text=True)
    os.unlink(tmp.name)
    if p.returncode == 1:
        d = os.path.join(HERE, "replays", dst); os.makedirs(d, exist_ok=True)
        out = os.path.join(d, f"{f['id']}.json")
        json.dump(new, open(out, "w"), indent=1, sort_keys=True)
        f.setdefault("properties", []).append(dst); f["replays"][dst] = os.path.relpath(out, HERE)
        print(f["id"], "-> reproduces for", dst, "::", [l for l in p.stdout.splitlines() if "bucket=" in l][:1])
    else:
        print(f["id"], "-> no violation for", dst, "(rc", p.returncode, ")", p.stdout.strip().splitlines()[-1:] )
json.dump(kf, open(os.path.join(HERE, "known_findings.json"), "w"), indent=1)
