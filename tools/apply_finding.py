#!/usr/bin/env python3
"""usage: tools/apply_finding.py <prop[,prop..]> <fid> [fid ...]
Marks listed findings as applying to further properties (their shapes are kept out of those generators while the
finding's primary reproducer still fails)."""
import json, os, sys
HERE = os.path.dirname(os.path.dirname(os.path.abspath(__file__)))
props = sys.argv[1].split(","); fids = set(sys.argv[2:])
kf = json.load(open(os.path.join(HERE, "known_findings.json")))
for f in kf["findings"]:
    if f["id"] in fids:
        for p in props:
            if p not in f["properties"]:
                f["properties"].append(p)
json.dump(kf, open(os.path.join(HERE, "known_findings.json"), "w"), indent=1)
print({f["id"]: f["properties"] for f in kf["findings"]})
