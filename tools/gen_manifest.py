#!/usr/bin/env python3
"""Regenerates /verif/MANIFEST.json from the table below (kept in one place so the manifest is always valid)."""
import json
import os

HERE = os.path.dirname(os.path.dirname(os.path.abspath(__file__)))

BASELINE = ("cd /repo && PYRATES_VERIF= /venv/bin/python -m pytest -ra -q -p no:cacheprovider --timeout=900 "
            "--continue-on-collection-errors")

# id -> dict(technique, text, note, design_ref, engine)
CLAIMED = {
    "C19": dict(
        technique="Hypothesis stateful (RuleBasedStateMachine) model-based testing against a list-based reference "
                  "interpolant",
        text="Generated update/bulk/query/mutate histories (incl. 1-3 buffer growth events, bounded variant, three "
             "dtypes, three ranks) are executed on DDEHistory and on an obviously-correct Python model; every query, "
             "a scan after each refusal and a final scan of all knots must agree (knots exactly). Exploration only: "
             "holds on everything generated.",
        note="Trusts NumPy arithmetic and my 60-line reference model; histories bounded by 50 rules and ~5200 records.",
        design_ref="DESIGN.md §4 C19",
        engine="hypothesis-stateful"),
}

CLAIMED["C01"] = dict(
    technique="Hypothesis-generated model programs vs. an independent reference interpreter (differential, pointwise)",
    text="Random well-formed circuits (operators/nodes/nested circuits/edges with the anchored shapes) are compiled with "
         "get_run_func (NumPy, float64, vectorize off and on) and the returned function, state layout, y0 and argument "
         "values are compared pointwise with an independent interpreter of the spec at random states and parameter "
         "assignments passed through the returned argument list. Exploration: holds on everything generated outside "
         "the listed known findings.",
    note="Trusts pv/model.py:RefModel + pv/expr.py (self-tested against Python eval); tolerance 1e-9*M+1e-12; bounded "
         "to <=6 nodes, <=3 ops/node, depth<=2, <=8 edges.",
    design_ref="DESIGN.md §4 C01")
CLAIMED["C04"] = dict(
    technique="Hypothesis-generated circuits, metamorphic relation vectorize=True vs vectorize=False on run() "
              "trajectories, reference interpreter as tie-breaker",
    text="The same generated spec (2-10 nodes of 1-2 types, shared templates, drawn edge density and matrix_sparseness) "
         "is simulated with and without vectorisation; all state-variable trajectories must agree column by column. Arm "
         "indexed_edges: 3-12 identical nodes coupled by rings / (partial) permutations with heterogeneous weights in "
         "drawn edge order, matrix_sparseness chosen so that the index-based edge realisation is used. Arm edge_templates: "
         "one EdgeTemplate with an algebraic operator shared by 2-3 projections between two node types with per-edge "
         "operator values.",
    note="Euler, 12-25 steps; outputs requested by full path in dict form; shapes of listed known findings excluded "
         "(counted in the evidence).",
    design_ref="DESIGN.md §4 C04")

CLAIMED["C03"] = dict(
    technique="Hypothesis-generated (model, T, dt, dts, cutoff, solver) configurations; differential against my own "
              "Euler/Heun loop over the same compiled function, and convergence against an independently integrated "
              "reference solution",
    text="Fixed-step arm: run() must reproduce row by row the Euler/Heun iterates of the compiled vector field (row "
         "count, first row, time index, cutoff). Convergence arm: scipy RK45/RK23/DOP853/LSODA and euler/heun against "
         "the reference interpreter integrated by DOP853 at rtol 1e-11, time-dependent forcing included.",
    note="NumPy backend (the other backends' solvers are exercised in C02); <=120 fixed steps, T<=2; tolerance factor "
         "2e-5 relative for adaptive solvers; no exact Heun claim for explicit-t terms.",
    design_ref="DESIGN.md §4 C03")

CLAIMED["C05"] = dict(
    technique="Hypothesis-generated expression ASTs rendered in syntactic variants; differential against an own AST "
              "evaluator on both evaluation paths (eval_node and generated code)",
    text="Every generated expression is rendered in three syntactic variants (spacing, ^ vs **, parenthesisation, "
         "number formats, both derivative notations), evaluated by ExpressionParser+eval_node and by a compiled "
         "one-equation operator at several argument assignments, and compared with the value its arithmetic denotes. Arm "
         "index: index/index_2d/index_axis/index_range forms on vector and matrix constants, on both paths, with "
         "parameter indices changed through the returned argument list, compared with NumPy indexing.",
    note="Real-valued scalar expressions; functions maxi/mini/round and complex constants not generated; tolerance "
         "1e-9*M+1e-12.",
    design_ref="DESIGN.md §4 C05")

CLAIMED["C06"] = dict(
    technique="Hypothesis-generated circuits and output requests; every returned column is checked against the "
              "reference-interpreter trajectory of the variable its label names (label-directed differential)",
    text="Output requests (dict/list form, wildcards at every level, several keys, permuted node order, vectorize "
         "on/off, depth 0-2) over fingerprinted circuits: each column must carry the trajectory of the variable named by "
         "its label and the column set must equal the addressed set.",
    note="Only models whose single-path baseline already agrees with the reference are judged (others are counted as "
         "rejected: they are C01/C04's subject). Population outputs are covered in C16's check.",
    design_ref="DESIGN.md §4 C06")

CLAIMED["C08"] = dict(
    technique="Hypothesis-generated circuits and input arrays; differential against the reference recurrence (fixed "
              "step), against np.interp at function level and against an independently integrated solution (adaptive)",
    text="Non-constant input arrays in all accepted shapes are sent to single and wildcard targets next to ordinary "
         "edges; fixed-step trajectories must equal the reference recurrence (sample k used during step k), the "
         "adaptive function must use the linear interpolant on linspace(0,T,N), and scipy runs must follow the "
         "solution driven by that interpolant.",
    note="NumPy backend (backend-specific interp is exercised in C02); only models whose input-free baseline agrees "
         "with the reference are judged; adaptive tolerance 1e-3 relative (piecewise-linear input has kinks).",
    design_ref="DESIGN.md §4 C08")

CLAIMED["C09"] = dict(
    technique="Hypothesis-generated circuits with discrete edge delays; differential against the delayed reference "
              "recurrence (Euler), vectorize on/off",
    text="Edges carry delay None or d with round(d/dt) in 2..7 in drawn mixtures (several delays per source and per "
         "target, delayed next to undelayed edges, algebraic and state sources); every state trajectory of run() must "
         "equal the recurrence target(k) += w*source(k-round(d/dt)).",
    note="Only models whose delay-free version agrees with the reference are judged; shapes of the listed known "
         "findings (same pair twice, two delayed variables of one operator, vectorised fan-in to one unit) are "
         "repaired/excluded and counted; Connectivity delays are covered by C16's check.",
    design_ref="DESIGN.md §4 C09")

CLAIMED["C11"] = dict(
    technique="Hypothesis-generated circuits with (delay, spread) edges; differential against the explicitly written "
              "augmented ODE system (gamma chains) integrated by the reference interpreter",
    text="Edges carry (d, s) pairs whose orders round to equal and different values, share sources/targets and are "
         "mixed with plain and discretely delayed edges; run() with euler (exact iterates) and scipy RK45 (tolerance), "
         "vectorize on/off, must reproduce every user variable of the explicit chain system (n=round((d/s)^2) stages of "
         "rate n/d, unit gain).",
    note="Only models whose delay-free version agrees with the reference are judged; Connectivity(delays, spread) is "
         "covered by C16's check; dde_approx is exercised in the thorough tier only.",
    design_ref="DESIGN.md §4 C11")

CLAIMED["C10"] = dict(
    technique="Hypothesis-generated delayed models; function-level differential with a hand-made history callable "
              "(values and query times), run-level differential against a method-of-steps reference",
    text="past()/x(t-tau) terms (literal and parameter delays, several per variable) and delayed edges under an "
         "adaptive solver: the compiled function called with a known smooth history must evaluate every delayed term "
         "as the right component of hist(t-tau) (t in time units for both solver families); run(euler) must equal the "
         "method-of-steps Euler recurrence, run(scipy) must stay near a fine-step reference.",
    note="NumPy backend, vectorize=False; scipy run tolerance 3e-2 (only gross errors); edge delays kept above the step "
         "size (shorter ones are neglected by design); negative numeric past coefficients are a listed finding.",
    design_ref="DESIGN.md §4 C10")

CLAIMED["C12"] = dict(
    technique="Hypothesis-generated scalar models; differential of get_jacobian_func against 5-point central "
              "differences of the compiled get_run_func function (history perturbation for delayed models)",
    text="Every entry of the returned Jacobian (dense and sparse) must equal the central difference of the compiled "
         "vector field at random states; for delayed models J0 and the history Jacobians are compared with differences "
         "w.r.t. y and w.r.t. the value the history returns at t-tau.",
    note="Entries at which two difference step sizes disagree (kinks) are skipped; functions whose differentiation is a "
         "listed known finding (sin/cos/sinh/cosh imports; arcsin/arccos/arctan/absv silently 0) are excluded and "
         "counted; DFDU/DFDP are C18's subject.",
    design_ref="DESIGN.md §4 C12")

CLAIMED["C16"] = dict(
    technique="Hypothesis-generated population circuits; differential against the reference interpreter applied to "
              "the explicit unit-by-unit network",
    text="PopulationTemplate/Connectivity circuits (non-square signed sparse matrices, scalar weights, per-unit "
         "parameters, algebraic coupling edges, delays with and without spread) are simulated and every unit's "
         "trajectory (columns (key, unit) in unit order) is compared with the explicit network interpreted by the "
         "reference model.",
    note="Euler, 10-25 steps; unit order made observable by unique per-unit initial values; shapes of the listed "
         "findings F-16b..h and the generic spec-level findings are excluded and counted.",
    design_ref="DESIGN.md §4 C16")

CLAIMED["C17"] = dict(
    technique="Hypothesis-generated circuits, parameter maps and grids; every returned grid row is re-built from "
              "scratch and compared with the reference interpreter (differential per row)",
    text="grid_search over node constants/initial values and edge weights (several nodes/vars/edges per key, edge "
         "indices, equal-length and permuted grids, optional extrinsic input, euler and scipy): the columns labelled "
         "with a row's key must carry the trajectory of a separate run with that row's values, all rows appear once.",
    note="Flat base circuits; only circuits whose plain run agrees with the reference are judged; grid keys address "
         "disjoint variables/edges (overlapping keys have no defined meaning).",
    design_ref="DESIGN.md §4 C17")

CLAIMED["C18"] = dict(
    technique="Hypothesis-generated scalar models with 1-20 parameters; cross-consistency of all emitted auto-07p "
              "artefacts plus differential of the f2py-compiled func/stpnt against the reference interpreter and "
              "central differences",
    text="parnames/unames/NDIM/NPAR of every c.<scenario> file, the forwarding call, STPNT lines and DFDP columns must "
         "use one slot per parameter (declaration order, distinct, outside 11..14); the compiled stpnt must deliver the "
         "declared values, func must equal the model at perturbed named parameter values, DFDU/DFDP must equal central "
         "differences of func.",
    note="auto-07p itself is not installed (no continuation run); f2py build per case; literals not representable in "
         "float32 are a listed finding (single precision constants in generated Fortran).",
    design_ref="DESIGN.md §4 C18")

CLAIMED["C20"] = dict(
    technique="Exhaustive enumeration of the backend x solver x vectorize x delay-kind x sparse matrix plus "
              "Hypothesis-generated single-point malformations of valid models (must-raise oracle)",
    text="Every matrix cell that the statement names as unsupported must raise before a function/DataFrame is "
         "returned (the valid neighbour cell is compiled first); every malformed variant (reserved name, undeclared "
         "variable, misspelt edge/output path component, value for a missing operator, two outputs, operator cycle) "
         "must raise; inputs/updates to missing variables must at least warn.",
    note="Only the must-raise direction is asserted; the matrix model is fixed (two nodes, one edge); in the quick tier "
         "the f2py baseline of Fortran rows is skipped; julia/matlab are not installed.",
    design_ref="DESIGN.md §4 C20")

CLAIMED["C02"] = dict(
    technique="Hypothesis-generated models and configurations; differential between the torch/jax/fortran backends and "
              "the NumPy backend (and the reference interpreter) on vector fields, argument values, interpolation of "
              "inputs and trajectories for every declared solver",
    text="The same generated model is compiled for each backend (vectorize on/off, in-place and returned-array "
         "convention, float64/float32); vector fields at random states, returned argument values, interp of extrinsic "
         "inputs at random times and run() trajectories under euler/heun/scipy/diffrax (sampling multiples, inputs) must "
         "agree with the NumPy backend, arguments matched by frontend name.",
    note="CPU only; julia/matlab not installed; a model refused by a backend with an exception is counted as rejected; "
         "float32 compared at 2e-4; torch calls on constant algebraic variables are a listed finding (F-02b).",
    design_ref="DESIGN.md §4 C02")

CLAIMED["C14"] = dict(
    technique="Hypothesis stateful (RuleBasedStateMachine) histories of read-only / copy-making operations with a "
              "deep structural snapshot invariant after every step",
    text="Histories of up to 8 listed operations on one template (and a sibling circuit sharing its template objects): "
         "the structural snapshot of template, sibling and shared objects must never change, repeated run(in_place=False) "
         "must return identical results, and an operation that works on a fresh template must not fail because of what an "
         "earlier read-only call left behind.",
    note="Process-global caches are reset between operations (they are C13's subject); operations that fail on a fresh "
         "template as well are not judged; 60 s guard per operation (inconclusive on timeout).",
    design_ref="DESIGN.md §4 C14", engine="hypothesis-stateful")

CLAIMED["C07"] = dict(
    technique="Hypothesis stateful (RuleBasedStateMachine) histories of override operations over several circuit "
              "instances sharing template objects, checked against a dict model after every step",
    text="Histories of update_var (scalar, wildcard+array, edge weight), copy-making forks (update_template, deepcopy) and "
         "transient get_run_func(node_values/edge_values) calls over a circuit, a sibling built from the same template "
         "objects, optionally one sub-circuit template used for two branches, and the forks: after every step argument "
         "values by name, y0 and the vector field (edge weights) of EVERY instance must equal that instance's model; a "
         "final vectorized two-step run is compared with the reference recurrence. Arm edge_values: edges through one shared "
         "EdgeTemplate whose operator constants are set by template variations, edge attribute dictionaries and "
         "update_var(edge_vars=...), compared with the closed-form right-hand side.",
    note="Observations compile joint deep copies of the instances (remembered simulation state is by design and would "
         "mask later initial-value overrides); <=4 instances, <=8 operations; shapes of listed findings excluded and "
         "counted.",
    design_ref="DESIGN.md §4 C07", engine="hypothesis-stateful")

CLAIMED["C13"] = dict(
    technique="Hypothesis stateful (RuleBasedStateMachine) histories over several name-sharing models in one process, "
              "differential against a fresh Python interpreter executing only the judged model's own operations",
    text="2-3 generated models sharing operator/node/file/function names (different equations, defaults, node sets or "
         "weights) are constructed, compiled (NumPy/torch/jax/Fortran), simulated, updated and cleared in drawn orders "
         "without any reset; every observed result (y0, arguments, vector field, rows, Jacobian) must equal the result "
         "of the same operation in a fresh interpreter, and functions returned earlier must keep their values. Arm sweep: the "
         "same structure compiled/run twice in a row with changed weights, defaults or equations on one backend with the "
         "same file and function names (hand-written parameter sweep).",
    note="One subprocess per judged model per history (the reference); generated in_edge operator names are compared as "
         "multisets of values; models that fail in the fresh interpreter are not judged; <=9 operations.",
    design_ref="DESIGN.md §4 C13", engine="hypothesis-stateful")

CLAIMED["C15"] = dict(
    technique="Hypothesis-generated models defined five ways (Python, harness-written YAML, to_yaml/from_yaml round trip, "
              "`base:` chains in YAML, update_template chains in Python) compared pointwise; equation edits against a "
              "regex whole-identifier oracle",
    text="Every generated spec (identifiers containing one another, shared operators, per-node overrides, hierarchy, "
         "same-named node templates) must give the same y0, arguments, vector field and vectorized rows through all five "
         "definitions; derived templates are produced by inverting an edit (rename+replace, extra term+remove, missing "
         "summand+append, missing equation+add, changed defaults, smaller circuit+nodes/edges). parser.replace and "
         "OperatorTemplate.update_template(equations=...) are compared with a regex oracle on generated equation strings.",
    note="The edits arm also runs coverage-guided shards (atheris/libFuzzer driving the same strategy through Hypothesis' "
         "fuzz_one_input); vectorized rows are compared only when the Python definition "
         "follows the reference recurrence; shapes of the listed C01/C05 findings are excluded and counted.",
    design_ref="DESIGN.md §4 C15")

# ---- second session: what the strengthened checks cover in addition (appended to the texts above) --------------------
EXTRA = {
    "C01": ("text", " One case in six routes edges through (shared) EdgeTemplates with an algebraic edge operator, per-edge "
                    "values and - every third operator - a second input fed from a named variable; operator names inside a "
                    "node type are prefixes of one another (op0, op0_b)."),
    "C02": ("text", " One case in three adds a term in E/pi; for torch/jax one in three compiles the other precision of the "
                    "same backend between obtaining and calling the function."),
    "C03": ("text", " One convergence case in five is a (coupled) van der Pol relaxation oscillator, judged against the error "
                    "the same scipy method reaches on the reference vector field (bound max(8e-5, 10x that error) at "
                    "rtol 1e-6)."),
    "C04": ("text", " Arm cross_type: a source type with 1-3 nodes projects to 2-12 nodes of another type through the indexed "
                    "edge path (scalar-source fan-out, ten and more targets, back projections). The indexed arm also draws "
                    "discrete and gamma delays; two cases in five of the main arm compile both settings one after the other "
                    "on ONE template instance (in_place drawn)."),
    "C05": ("text", " The strategy also draws right-hand sides without variables (negative constants) and families of "
                    "algebraically related sums, e.g. (a + r)*(2 - a)."),
    "C06": ("text", " Half of the cases make the request on a template instance that was compiled before with the same or the "
                    "other vectorize setting (in_place drawn)."),
    "C08": ("text", " The fixed-step arm also runs on the jax and torch solvers, with sampling steps of 2 and 5 integration "
                    "steps, and with inputs that address ten and more nodes of one type."),
    "C10": ("text", " Delays given as parameters are changed through the argument list at call time; a scipy run with a "
                    "sampling step of 8-15 integration steps must agree (1.2e-2) with the finely sampled run at the common "
                    "time points."),
    "C11": ("text", " Arm structured: 3-6 identical nodes, 3-8 kernel edges whose sources repeat and are listed in drawn "
                    "order, one or two (d, s) pairs; kernels with more stages than the delay has steps (order 8-16 at 5-12 "
                    "steps) are drawn in both arms."),
    "C12": ("text", " A third of the delayed models are requested with sparse=True (containers checked, then compared as "
                    "dense matrices)."),
    "C13": ("text", " Operations carry a float precision; a failed_compile operation leaves a half-finished translation "
                    "behind; the sweep arm varies the equations for Fortran."),
    "C14": ("text", " Operation copy_then_update makes a copy (update_template with and without new edges, deepcopy) and then "
                    "changes a node variable and an inherited edge of the COPY in place; templates contain edge operators "
                    "whose second input is a string-valued edge attribute."),
    "C15": ("text", " Half of the cases also write the model into two YAML files that refer to one another (qualified and "
                    "bare references) with decoy templates of the same names in the other file."),
    "C16": ("text", " A third of the coupling edges are dynamic (a state variable per target-source pair); half of the judged "
                    "runs follow an earlier translation (run / get_run_func, on a copy or in place) of the same objects."),
    "C17": ("text", " A third of the base circuits are hierarchical with wildcard input keys; half of the edge sweeps add a "
                    "second key on the same edge (its discrete delay)."),
    "C19": ("text", " Arrays returned by earlier queries are held and must not change through later queries or updates."),
}
NOTE_REPLACE = {
    "C06": ("Only models whose single-path baseline already agrees with the reference are judged (others are counted as "
            "rejected: they are C01/C04's subject).",
            "The request with one full path per key is judged as well (shapes of the listed findings are excluded first)."),
    "C02": ("a model refused by a backend with an exception is counted as rejected; ",
            "a model that NumPy compiles/runs and another backend refuses is a violation; adaptive comparisons skip "
            "solutions that grow by more than a factor 50; "),
    "C17": ("Flat base circuits; only", "Only"),
    "C16": ("shapes of the listed findings F-16b..h", "shapes of the listed findings F-16c/d/e/g"),
    "C09": ("shapes of the listed known findings (same pair twice, two delayed variables of one operator, vectorised fan-in "
            "to one unit) are repaired/excluded and counted", "shapes of the listed known findings are excluded and counted"),
    "C12": ("functions whose differentiation is a listed known finding (sin/cos/sinh/cosh imports; arcsin/arccos/arctan/absv "
            "silently 0) are excluded and counted; ", ""),
    "C10": ("negative numeric past coefficients are a listed finding.", "bundled parallel delayed connections are a listed "
            "finding (F-09g)."),
    "C18": ("literals not representable in float32 are a listed finding (single precision constants in generated Fortran).",
            "parameters that only occur in boundary/integral conditions take the last PAR slots (listed finding F-18c)."),
}
for k, (field, txt) in EXTRA.items():
    CLAIMED[k][field] = CLAIMED[k][field] + txt
for k, (old, new) in NOTE_REPLACE.items():
    assert old in CLAIMED[k]["note"], (k, old)
    CLAIMED[k]["note"] = CLAIMED[k]["note"].replace(old, new)

# third part of the work (DESIGN.md §12.9)
EXTRA2 = {
    "C02": " For adaptive solvers with extrinsic inputs a deviation above 1e-4 is judged against a DOP853 run at rtol 1e-12 "
           "(the backend may be at most 10x further from it than the NumPy backend).",
    "C04": " One case in five of the main arm delays a subset of the edges (2-7 steps; delayed and undelayed edges of one "
           "source in any order).",
    "C05": " Arm special_names: 70 variable names that mean something else somewhere in the tool chain (sympy constants, "
           "singletons and function classes, names of generated variables) declared as parameter, state or input: the model "
           "is refused or the name denotes the declared variable (value and argument).",
    "C09": " A third of the cases run solver='heun' (exact reference: the corrector stage of step k reads the source of step "
           "k+1-D). Arm alg_chain: the delayed source is an algebraic output that depends on an edge from an algebraic "
           "variable of a node declared earlier or later, with delayed and undelayed targets of one type.",
    "C10": " A third of the run cases are vectorized; a delay parameter may differ between the nodes that share the operator.",
    "C11": " The gamma arm draws dde_approx in {0, 3, 5}: orders max(round((d/s)^2), n), plain delays become chains of n "
           "stages of rate n/d (time units under every solver). The Connectivity forms of delay+spread are judged by C16.",
    "C12": " A third of the models use x0..x3 (sympy's names for temporaries) as parameter and state names.",
    "C13": " The first two models of a history may be built from the very same Operator/Node/EdgeTemplate objects; the sweep "
           "arm also changes the float precision between the two translations and has an int_spelling variant (k: 2 in the "
           "first model, k: 2.0 set to 0.37 in the second).",
    "C15": " Variant rewrite: write, load, overwrite with the judged model, load again on ONE file without any cache reset, "
           "the file named in slash, ./, dotted-directory or dotted notation.",
    "C16": " Arm matrix_edges: the explicit network is built by CircuitTemplate.add_edges_from_matrix (non-square and "
           "asymmetric sparsity patterns, scalar weights as full matrices, optional delays, vectorize on/off) and compared "
           "with the reference; a third of the discrete Connectivity delays pass spread=0 explicitly.",
    "C17": " One to three keys per sweep; permuted grids with three keys.",
    "C06": " A quarter of the flat circuits name nodes like variables of the generated function (t, y, dy, hist, weight, x); "
           "a basic request that raises on a model that get_run_func translates is a violation.",
}
EXTRA2["C02"] += (" A quarter of the vf cases add maxi/mini with a numeric or variable bound, a sixth stand-alone ratios of integer "
                  "literals; half of the fixed-step trajectory cases run the model a second time in the same process with twice "
                  "the step size and the same numbers of steps.")
EXTRA2["C08"] = " A third of the adaptive run cases use the torch / jax implementation of the input interpolation."
EXTRA2["C19"] = " A rule repeats the time of the previous query exactly (records may have been added in between)."
EXTRA2["C20"] = (" Unknown backend names are part of the matrix; misspelt outputs are also requested next to a valid one; "
                 "node_values on node paths that do not exist.")
EXTRA2["C13"] += (" Arm same_name_operators: one model whose node types use different operator templates of the same name, "
                  "judged against the reference interpreter.")
EXTRA2["C12"] += " A third of the delayed cases use the fixed-step convention (t is the step counter: hist(t*dt - tau))."
EXTRA2["C14"] = (" get_run_func(in_place=False) must hand out the declared initial state whatever was simulated "
                 "(in_place=False) before.")
EXTRA2["C15"] += " A quarter of the Python definitions carry numpy scalars as edge weights (they must survive to_yaml)."
EXTRA2["C07"] = " Histories add an (ineffective, weight 0) edge with update_template(in_place=True) before later edge updates."
EXTRA2["C16"] += (" The population arm draws dde_approx=3 for a fifth of the delayed cases. Arm adaptive_forms: population form "
                  "and explicit PyRates network of one model under scipy RK45 (rtol 1e-9) must agree to 2e-6 (delays are not "
                  "drawn while F-16k is listed).")
for k, txt in EXTRA2.items():
    CLAIMED[k]["text"] = CLAIMED[k]["text"] + txt

NOT_YET = {}


def main():
    props = [json.loads(l) for l in open(os.path.join(HERE, "properties.jsonl"))]
    checks = []
    na = []
    for p in props:
        pid = p["id"]
        if pid in CLAIMED:
            c = CLAIMED[pid]
            checks.append({
                "property_id": pid,
                "quick_cmd": f"./check {pid} --tier quick",
                "thorough_cmd": f"./check {pid} --tier thorough",
                "evidence_file": f"/verif/evidence/{pid}.json",
                "replay_cmd_template": f"./check {pid} --replay {{path}}",
                "engine": c.get("engine", "hypothesis"),
                "level_claimed": {"category": "exploration", "text": c["text"], "design_ref": c["design_ref"]},
                "level_note": c["note"],
                "technique": c["technique"],
            })
        else:
            na.append({"property_id": pid,
                       "reason": NOT_YET.get(pid, "check not built yet in this session (property-based check planned, "
                                                  "see DESIGN.md §4); not claimed until it is quiet and sensitive")})
    manifest = {
        "version": 1,
        "setup_cmd": ("/venv/bin/pip install -q --no-index --find-links /opt/veriftools/wheels --target /verif/.deps "
                      "hypothesis jsonschema atheris && ./check SELFTEST"),
        "hooks": {
            "guard": "PYRATES_VERIF",
            "enable": "none needed: every observation point is public API; ./check exports PYRATES_VERIF=1 anyway",
            "baseline_off_cmd": BASELINE,
            "source_commits": [],
            "add_only": True,
        },
        "engines": [
            {"name": "hypothesis", "path": "pv/worker.py", "serves_properties": sorted(CLAIMED),
             "kind_free_text": "Hypothesis 6.168 @given over JSON model specs / operation lists, 16 seeded shards, "
                               "collect -> bucket -> shrink -> fresh-process confirm"},
            {"name": "hypothesis-stateful", "path": "pv/worker.py",
             "serves_properties": [k for k, v in sorted(CLAIMED.items()) if v.get("engine") == "hypothesis-stateful"],
             "kind_free_text": "RuleBasedStateMachine histories compared with a reference model after every step"},
            {"name": "atheris", "path": "pv/worker.py", "serves_properties": ["C05", "C15"],
             "kind_free_text": "optional coverage-guided shards: libFuzzer (atheris 3.1) mutates the byte string that "
                               "Hypothesis' fuzz_one_input decodes into a case of the arm's strategy; same oracle"},
        ],
        "checks": checks,
        "not_applicable": na,
        "notes": "All checks: ./check <ID> --tier quick|thorough; exit 0 held / 1 VIOLATION / 2 harness error. "
                 "VERIF_SEED selects the Hypothesis seeds. Known findings: /verif/known_findings.json.",
    }
    with open(os.path.join(HERE, "MANIFEST.json"), "w") as fh:
        json.dump(manifest, fh, indent=1)
    print("claimed:", sorted(CLAIMED), "not claimed:", [x["property_id"] for x in na])


if __name__ == "__main__":
    main()
