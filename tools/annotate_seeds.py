#!/usr/bin/env python3
"""Adds my own remarks to seeded/<ID>-<k>/meta.json (run after tools/seed_verify.sh, which rewrites meta.json)."""
import json, os
HERE = os.path.dirname(os.path.dirname(os.path.abspath(__file__)))
NOTES = {
    "C02-1": "patch ported by hand to the current tree (the fix of F-03d touched the same lines): mutants/seed_C02-1_ported_*.diff",
    "C15-1": "patch ported by hand to the rewritten boundary test of parser.replace (fixes F-15a/b): mutants/seed_C15-1_ported_*.diff; the agent's original patch is kept as patch.orig.diff",
    "C07-2": "behaviour-preserving on the current tree: since fix F-07a (copy-on-write of shared sub-circuit templates in add_node_template) the shared sub-circuits this change introduces can no longer be altered through update_var; the demonstration passes on the patched current tree",
    "C13-1": "behaviour-preserving on the current tree: since fix F-13a every translation starts from empty operator/IR caches, so it no longer matters which branch of clear_frontend_caches clears OperatorTemplate.cache; the demonstration passes on the patched current tree",
    "C14-1": "behaviour-preserving on the current tree: since fix F-07c OperatorGraphTemplate.apply no longer writes values into the template's variations, so sharing the EdgeTemplate between a circuit and its deep copy leaks nothing; the demonstration passes on the patched current tree",
    "C06-1": "also caught by C07 (update_var on shared templates)",
    "C17-2": "also caught by C07 (update_var on shared templates)",
    "C14-2": "caught by C15 (derivation with dictionary-form declarations must leave the base template unchanged)",
    "C02-2": "caught by C13 (sweep arm: second JAX compilation with changed weights)",
    "C03-1": "caught by C02 (cross-backend trajectories with inputs and sampling_step_size > step_size)",
}
for k, note in NOTES.items():
    p = os.path.join(HERE, "seeded", k, "meta.json")
    if os.path.exists(p):
        m = json.load(open(p)); m["note"] = note; json.dump(m, open(p, "w"), indent=1)
        print("annotated", k)
