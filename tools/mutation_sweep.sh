#!/bin/bash
# usage: tools/mutation_sweep.sh [pattern]   -- runs every reverse patch in mutants/ (revert of one "fix:" commit, or a
# hand-written mutant) against the quick check of the property the fix is recorded for (known_findings.json "fixed"
# lines map commit -> property; other mutants carry the property in their file name: <ID>_*.diff or seed_<ID>-k_*.diff).
# Writes mutants/RESULTS.tsv (mutant, property, exit code, seconds). Scratch copies live under /tmp and are removed.
HERE="$(cd "$(dirname "$0")/.." && pwd)"; cd "$HERE"
PAT="${1:-}"
OUT="$HERE/mutants/RESULTS.tsv"; [ -z "$PAT" ] && : > "$OUT"
for f in mutants/*${PAT}*.diff; do
  b=$(basename "$f")
  props=""
  if [[ "$b" == revert_* ]]; then
    h=$(echo "$b" | cut -d_ -f2)
    props=$(/venv/bin/python - "$h" <<'PY'
import json,sys,re
kf=json.load(open('known_findings.json')); h=sys.argv[1]
ps=[]
for l in kf['fixed']:
    m=re.match(r'fixed: property=(C\d+) (\w+) ',l)
    if m and (m.group(2).startswith(h) or h.startswith(m.group(2))): ps.append(m.group(1))
print(' '.join(sorted(set(ps))))
PY
)
  elif [[ "$b" == seed_* ]]; then props=$(echo "$b" | sed -E 's/seed_(C[0-9]+)-.*/\1/')
  else props=$(echo "$b" | sed -E 's/^(C[0-9]+)_.*/\1/'); fi
  [ -z "$props" ] && { echo -e "$b\t-\tno-property\t0" >> "$OUT"; continue; }
  for p in $props; do
    t0=$(date +%s)
    PV_NO_SHRINK=1 tools/mutant_run.sh "$f" "$p" quick > /tmp/pvmut_last.log 2>&1; rc=$?
    t1=$(date +%s)
    echo -e "$b\t$p\t$rc\t$((t1-t0))" | tee -a "$OUT"
  done
done
